"""Generators for GP objects: kernels (library object + textbook reference), parameter values inside the box
constraints, input points in the unit cube (with duplicates and near-duplicates)."""
import math

import numpy as np

from harness.ref_gp import RefKernel
from harness.tape import HarnessError

BOUNDS = [("inv_bw", 1e-4, 100.0), ("covariance_scale", 1e-3, 1e3), ("power_", 0.25, 4.0), ("alpha", 1e-6, 250.0), ("mean_lam", 1e-4, 50.0), ("gamma", 1e-4, 1.0)]


def draw_param(t, name):
    if "mean_value" in name:
        return t.float(-3.0, 3.0) if t.bool() else 0.0
    for key, lo, up in BOUNDS:
        if key in name:
            c = t.weighted([(3, 1.0), (1, lo), (1, up), (6, None)])
            if c is None:
                return math.exp(t.float(math.log(lo), math.log(up)))
            return min(max(c, lo), up)
    raise HarnessError(f"unknown parameter {name}")


def gen_points(t, n, d, base=None):
    X = []
    for i in range(n):
        if base is not None and len(base) and t.chance(1, 5):
            src = base[t.index(len(base))]
            if t.bool():
                X.append(list(src))
            else:
                X.append([min(max(v + t.choice([1e-6, -1e-6]), 0.0), 1.0) for v in src])
            continue
        if X and t.chance(1, 6):
            X.append(list(X[t.index(len(X))]))
            continue
        X.append([t.weighted([(1, 0.0), (1, 1.0), (8, None)]) for _ in range(d)])
        X[-1] = [t.float(0.0, 1.0) if v is None else v for v in X[-1]]
    return X


def _fit_encoding(params, encoding_type):
    """The softplus ('positive') encoding has an open lower bound and overflows above ~700: keep generated values inside."""
    if encoding_type != "positive":
        return params
    out = {}
    for k_, v in params.items():
        for key, lo, up in BOUNDS:
            if key in k_ and v is not None:
                v = min(max(v, lo * (1 + 1e-6) + 1e-9), 500.0)
        out[k_] = v
    return out


def build_kernel(t, d, kinds=None, encoding_type="logarithm"):
    """Returns (library kernel, reference kernel or None, label, input dimension)."""
    from syne_tune.optimizer.schedulers.searchers.bayesopt.gpautograd.kernel import (
        ExponentialDecayResourcesKernelFunction,
        Matern52,
        ProductKernelFunction,
    )
    from syne_tune.optimizer.schedulers.searchers.bayesopt.gpautograd.mean import ScalarMeanFunction
    from syne_tune.optimizer.schedulers.searchers.bayesopt.gpautograd.warping import WarpedKernel, Warping

    kind = t.weighted([(w, k_) for w, k_ in [(4, "matern"), (2, "warped"), (2, "product"), (1, "expdecay"), (1, "product-expdecay"), (1, "warped-product-expdecay")] if kinds is None or k_ in kinds])
    if kind == "product" and d < 2:
        kind = "matern"
    if kind.endswith("product-expdecay") and d < 2:
        kind = "expdecay"

    def matern(dim):
        ard = t.bool() and dim > 1
        hcs = not t.chance(1, 4)
        k = Matern52(dimension=dim, ARD=ard, has_covariance_scale=hcs, encoding_type=encoding_type)
        k.collect_params().initialize()
        return k, ard, hcs

    def ref_of_matern(k, params, prefix=""):
        ibs = [v for n_, v in sorted(params.items()) if n_.startswith(prefix + "inv_bw")]
        cs = params.get(prefix + "covariance_scale", 1.0)
        return RefKernel("matern", inv_bw=ibs if len(ibs) > 1 else ibs[0], cov_scale=cs)

    if kind == "matern":
        k, ard, hcs = matern(d)
        params = _fit_encoding({n_: draw_param(t, n_) for n_ in k.get_params()}, encoding_type)
        k.set_params(params)
        return k, ref_of_matern(k, params), "matern" + ("-ard" if ard else "") + ("" if hcs else "-noscale"), d, params
    if kind == "warped":
        inner, ard, hcs = matern(d)
        if d >= 3 and t.bool():
            ranges = [(0, 1), (2, d)]
        elif d >= 2 and t.bool():
            ranges = [(0, t.int(1, d - 1))]
        else:
            ranges = [(0, d)]
        ws = [Warping(d, r, encoding_type=encoding_type) for r in ranges]
        k = WarpedKernel(inner, ws)
        k.collect_params().initialize()
        params = _fit_encoding({n_: draw_param(t, n_) for n_ in k.get_params()}, encoding_type)
        k.set_params(params)
        refr = []
        for i, (lo, up) in enumerate(ranges):
            pre = "warping_" if len(ranges) == 1 else f"warping{i}_"
            size = up - lo
            if size == 1:
                a = [params[pre + "power_a"]]
                b = [params[pre + "power_b"]]
            else:
                a = [params[pre + f"power_a_{j}"] for j in range(size)]
                b = [params[pre + f"power_b_{j}"] for j in range(size)]
            refr.append((lo, up, np.array(a), np.array(b)))
        ref = RefKernel("warped", inner=ref_of_matern(inner, params, "kernel_"), ranges=refr)
        return k, ref, f"warped-{len(ranges)}", d, params
    if kind == "product":
        d1 = t.int(1, d - 1)
        k1, _, _ = matern(d1)
        k2, _, _ = matern(d - d1)
        k = ProductKernelFunction(k1, k2)
        k.collect_params().initialize()
        params = _fit_encoding({n_: draw_param(t, n_) for n_ in k.get_params()}, encoding_type)
        k.set_params(params)
        ref = RefKernel("product", d1=d1, k1=ref_of_matern(k1, params, "kernel1_"), k2=ref_of_matern(k2, params, "kernel2_"))
        return k, ref, "product", d, params
    # compositions with the exponential-decay resource kernel (no harness formula: black-box kernels)
    d_first = t.int(1, d - 1) if kind.endswith("product-expdecay") else 0
    kx, _, _ = matern(d - d_first)
    mx = ScalarMeanFunction()
    delta = t.weighted([(2, None), (1, 0.0), (1, 1.0), (2, "mid")])
    if delta == "mid":
        delta = t.float(0.05, 0.95)
    k = ExponentialDecayResourcesKernelFunction(kx, mx, encoding_type=encoding_type, delta_fixed_value=delta)
    if d_first:
        k1, _, _ = matern(d_first)
        k = ProductKernelFunction(k1, k)
        if kind.startswith("warped"):
            # the warping covers the trailing coordinates incl. the resource one (inputs of this kind lie in the unit cube)
            k = WarpedKernel(k, [Warping(d + 1, (t.int(0, d), d + 1), encoding_type=encoding_type)])
    k.collect_params().initialize()
    params = _fit_encoding({n_: draw_param(t, n_) for n_ in k.get_params() if not n_.endswith("delta")}, encoding_type)
    for n_ in k.get_params():
        if n_.endswith("delta"):
            params[n_] = t.float(0.0, 1.0)
    k.set_params(params)
    return k, None, kind, d + 1, dict(params, delta_fixed=delta)




def resource_value(t, klabel):
    """Value of the trailing resource coordinate of kernels built on the exponential-decay kernel (None for other kernels)."""
    if "expdecay" not in klabel:
        return None
    if klabel.startswith("warped"):
        return t.int(1, 9) / 10.0  # warped inputs lie in the unit cube
    return float(t.int(1, 9))
