"""Life-cycle automaton, worker-occupancy counter and scheduler-notification
grammar over a recorded tuning history (DESIGN.md 5.4 / C01)."""
from harness.tape import Violation

TERMINAL = ("Completed", "Failed", "Stopped")


def check_lifecycle(run, n_workers, labels, start_jobs_without_delay=True):
    state = {}  # trial -> none|running|paused|stopped|completed|failed
    occupying = set()
    n_started = 0
    added = set()
    first_result_seen = set()
    pending_end = {}  # trial -> what end notification is due ("remove"|"complete"|"error"), set during an iteration
    ended_run = {}  # trial -> end notification received for the current run
    last_suggest = None
    tuning_ended = False
    since_busy = None
    max_conc = 0
    decisions = 0
    trace_tail = []

    def ctx():
        return f"history tail={trace_tail[-10:]}"

    for e in run.events:
        k = e["kind"]
        if k in ("loop_start", "crit", "sleep", "cb.start", "cb.resume", "cb.result", "cb.complete", "tuning_start", "script.report", "script.exit", "script.killed", "script.start", "script.external_stop", "be.copy_checkpoint", "be.delete_checkpoint"):
            if k == "loop_start":
                pass
            continue
        brief = (k, e.get("trial_id"), e.get("decision") or e.get("ret"))
        trace_tail.append(brief)
        if k == "tuning_end":
            tuning_ended = True
            continue
        if k == "be.stop_all":
            continue
        if tuning_ended:
            continue  # after the loop only clean-up happens
        if k == "sched.suggest":
            last_suggest = e
            continue
        if k == "be.busy":
            since_busy = [len(e["busy"]), 0]
            continue
        if k == "be.start":
            tid = e["trial_id"]
            if tid is None:
                continue  # start_trial raised
            if tid != n_started:
                raise Violation("trial-id-not-sequential", f"start_trial returned id {tid}, expected {n_started}; {ctx()}")
            n_started += 1
            if last_suggest is None or last_suggest.get("ret") != "start":
                raise Violation("start-without-start-suggestion", f"trial {tid}; {ctx()}")
            last_suggest = None
            state[tid] = "running"
            occupying.add(tid)
            ended_run.pop(tid, None)
            if since_busy is not None:
                since_busy[1] += 1
        elif k == "be.resume":
            tid = e["trial_id"]
            if last_suggest is None or last_suggest.get("ret") != "resume" or last_suggest.get("checkpoint_trial_id") != tid:
                raise Violation("resume-without-resume-suggestion", f"trial {tid}; {ctx()}")
            last_suggest = None
            if state.get(tid) != "paused":
                raise Violation("resume-of-non-paused-trial", f"trial {tid} is {state.get(tid)}; {ctx()}")
            state[tid] = "running"
            occupying.add(tid)
            ended_run.pop(tid, None)
            labels.add("resume")
            if since_busy is not None:
                since_busy[1] += 1
        if k in ("be.start", "be.resume"):
            max_conc = max(max_conc, len(occupying))
            if len(occupying) > n_workers:
                raise Violation("more-than-n_workers-trials", f"{sorted(occupying)} occupy workers, n_workers={n_workers}; {ctx()}")
            if not start_jobs_without_delay and since_busy is not None and since_busy[0] + since_busy[1] > n_workers:
                raise Violation(
                    "start-while-backend-busy",
                    f"back-end reported {since_busy[0]} busy trials, {since_busy[1]} started since, n_workers={n_workers}; {ctx()}",
                )
            continue
        if k == "sched.add":
            tid = e["trial_id"]
            if tid in added:
                raise Violation("on_trial_add-twice", f"trial {tid}; {ctx()}")
            if tid in first_result_seen:
                raise Violation("on_trial_add-after-result", f"trial {tid}; {ctx()}")
            added.add(tid)
            continue
        if k == "fetch":
            # a new iteration: everything due from the previous one must have happened
            for tid, due in pending_end.items():
                if due is not None:
                    raise Violation(f"missing-on_trial_{due}", f"trial {tid}: the loop saw its end but the scheduler was not told; {ctx()}")
            pending_end = {}
            # the loop polls exactly the trials which occupy workers
            missing = sorted(t_ for t_ in occupying if t_ not in e["asked"])
            if missing:
                raise Violation("running-trial-not-polled", f"trials {missing} were started/resumed and have not ended, but the loop polls only {e['asked']}; {ctx()}")
            for tid, st in e["status"].items():
                if st in TERMINAL and state.get(tid) == "running":
                    # due unless a STOP/PAUSE decision takes precedence in this iteration
                    if st == "Completed":
                        pending_end[tid] = "complete"
                    else:
                        pending_end[tid] = "error"
                        labels.add("failure" if st == "Failed" else "stopped-externally")
            fetch_status = dict(e["status"])
            continue
        if k == "sched.result":
            tid = e["trial_id"]
            if state.get(tid) != "running":
                raise Violation("result-for-trial-not-running", f"trial {tid} is {state.get(tid)}; {ctx()}")
            if tid in ended_run:
                raise Violation("result-after-end-notification", f"trial {tid} after on_trial_{ended_run[tid]}; {ctx()}")
            if tid not in added:
                raise Violation("result-before-on_trial_add", f"trial {tid}; {ctx()}")
            first_result_seen.add(tid)
            if e["decision"] in ("STOP", "PAUSE"):
                decisions += 1
                prev = pending_end.get(tid)
                pending_end[tid] = "remove"
                state[tid] = "stopped" if e["decision"] == "STOP" else "paused"
                occupying.discard(tid)
                labels.add("decision-" + e["decision"].lower())
                if prev in ("complete", "error"):
                    labels.add(f"same-poll-decision-and-{prev}")
                    # (prev == "error": the run failed and the scheduler stopped / paused it in
                    # the same poll; the decision takes precedence, the back-end holds it as
                    # paused / stopped)
            continue
        if k in ("be.stop", "be.pause"):
            continue
        if k in ("sched.remove", "sched.complete", "sched.error"):
            tid = e["trial_id"]
            what = k.split(".")[1]
            due = pending_end.get(tid)
            if tid in ended_run:
                kind = f"two-end-notifications:{ended_run[tid]}+{what}"
                raise Violation(kind, f"trial {tid}: on_trial_{ended_run[tid]} and on_trial_{what} for the same run; {ctx()}")
            if due != what:
                raise Violation(f"unexpected-on_trial_{what}", f"trial {tid}: due={due}; {ctx()}")
            pending_end[tid] = None
            ended_run[tid] = what
            if what == "complete":
                state[tid] = "completed"
            elif what == "error":
                state[tid] = "failed"
            occupying.discard(tid)
            continue
        if k == "loop_end":
            for tid, due in pending_end.items():
                if due is not None:
                    raise Violation(f"missing-on_trial_{due}", f"trial {tid}: the loop saw its end but the scheduler was not told; {ctx()}")
            pending_end = {}
            continue
    if max_conc >= 2:
        labels.add("concurrent>=2")
    return max_conc >= 2 and decisions >= 1
