"""Hang detection for 'never blocks' clauses.  Used only around calls that are
expected to take milliseconds; the limit is three orders of magnitude above
that, so it cannot fire on a loaded machine, only on a genuine endless loop."""
import signal

from harness.tape import Violation


class time_limit:
    def __init__(self, seconds, kind, detail=""):
        self.seconds = seconds
        self.kind = kind
        self.detail = detail

    def _handler(self, signum, frame):
        raise Violation(self.kind, self.detail)

    def __enter__(self):
        self._old = signal.signal(signal.SIGALRM, self._handler)
        signal.setitimer(signal.ITIMER_REAL, self.seconds)
        return self

    def __exit__(self, *a):
        signal.setitimer(signal.ITIMER_REAL, 0)
        signal.signal(signal.SIGALRM, self._old)
        return False
