"""Reference model of promotion-type asynchronous Hyperband (ASHA, PASHA cap,
cost-aware, RUSH), written from the doc-strings.  No syne_tune import.

The model is a *validity predicate with state*: ``allowed_outcomes`` lists
every outcome of a ``suggest`` call the documented rule permits in the current
state (several when a metric equals a threshold up to round-off or when best
entries tie); the caller checks the actual outcome is among them and then
calls ``apply_*`` with the actual outcome so that the model follows the run.
"""
import numpy as np

from harness.ref_stopping import promote_quantiles, tie


class Entry:
    __slots__ = ("trial", "metric", "cost", "promoted", "seq")

    def __init__(self, trial, metric, cost, seq):
        self.trial = trial
        self.metric = metric
        self.cost = cost
        self.promoted = False
        self.seq = seq


class RefPromotion:
    def __init__(self, levels, max_t, mode, brackets, per_bracket, variant="promotion", rush_candidates=0):
        self.levels = list(levels)
        self.max_t = max_t
        self.mode = mode
        self.variant = variant
        self.num_brackets = min(brackets, len(levels) + 1)
        self.per_bracket = per_bracket
        self.q = dict(zip(levels, promote_quantiles(levels, max_t)))
        nsys = self.num_brackets if per_bracket else 1
        self.systems = [{lv: [] for lv in levels[s:]} for s in range(nsys)]
        self.rush_n = rush_candidates
        self.rush_thr = [dict() for _ in range(nsys)]
        self.seq = 0
        self.promoted_from = {}  # trial -> set of levels promoted from

    # ------------------------------------------------------------------
    def system_of(self, bracket):
        return bracket if self.per_bracket else 0

    def first_milestone(self, bracket):
        lv = self.levels[bracket:]
        return lv[0] if lv else self.max_t

    def next_level(self, sys_id, level):
        lv = sorted(self.systems[sys_id])
        higher = [x for x in lv if x > level]
        return higher[0] if higher else self.max_t

    def better(self, a, b):
        return a < b if self.mode == "min" else a > b

    def _sorted(self, rung):
        sign = 1 if self.mode == "min" else -1
        return sorted(rung, key=lambda e: (sign * e.metric, e.seq))

    # ------------------------------------------------------------------
    def register(self, trial, bracket, level, metric, cost=None):
        """A trial paused at rung ``level``."""
        sys_id = self.system_of(bracket)
        rung = self.systems[sys_id].get(level)
        if rung is None:
            return False
        if any(e.trial == trial for e in rung):
            return "duplicate"
        self.seq += 1
        rung.append(Entry(trial, metric, cost, self.seq))
        return True

    def allowed_outcomes(self, sys_id, cap=None):
        """Returns (set of allowed outcomes, ambiguous flag).  Outcomes are
        ("new",) or ("resume", trial, from_level, to_level)."""
        out = set()
        ambiguous = False
        limit = self.max_t if cap is None else cap
        system = self.systems[sys_id]
        thr_updates = []
        for level in sorted(system, reverse=True):
            if not (level < limit):
                continue
            rung = system[level]
            n = len(rung)
            if n < 2:
                continue
            order = self._sorted(rung)
            vals = [e.metric for e in order]
            # --- candidate(s): best entry not yet promoted (RUSH: that also passes the threshold filter)
            cands = []
            for e in order:
                if e.promoted:
                    continue
                if self.rush_n > 0:
                    thr = self.rush_thr[sys_id]
                    if int(e.trial) < self.rush_n:
                        old = thr.get(level)
                        thr[level] = e.metric if old is None or self.better(e.metric, old) else old
                    else:
                        th = thr.get(level)
                        if th is not None and self.better(th, e.metric):
                            continue
                cands.append(e)
                break
            if not cands:
                continue
            best = cands[0]
            tied = [e for e in order if not e.promoted and e.metric == best.metric] if self.rush_n == 0 else [best]
            # --- eligibility of the best candidate
            if self.variant == "cost_promotion":
                total = sum(e.cost for e in order)
                thr_c = total * self.q[level]
                csum = 0.0
                for e in order:
                    csum += e.cost
                    if e is best:
                        break
                if abs(csum - thr_c) <= 1e-9 * max(1.0, abs(thr_c)):
                    verdict = "either"
                else:
                    verdict = "yes" if csum <= thr_c else "no"
            else:
                q = self.q[level]
                if self.mode == "min":
                    cutoff = float(np.quantile(np.array(vals, dtype=float), q))
                    good = best.metric <= cutoff
                else:
                    cutoff = float(np.quantile(np.array(vals, dtype=float), 1 - q))
                    good = best.metric >= cutoff
                if tie(best.metric, cutoff, scale=max(abs(v) for v in vals)):
                    verdict = "either"
                else:
                    verdict = "yes" if good else "no"
            if verdict == "no":
                continue
            to = self.next_level(sys_id, level)
            for e in tied:
                out.add(("resume", e.trial, level, to))
            if len(tied) > 1:
                ambiguous = True
            if verdict == "yes":
                return out, ambiguous
            ambiguous = True
        out.add(("new",))
        return out, ambiguous

    def apply_resume(self, sys_id, trial, level):
        for e in self.systems[sys_id][level]:
            if e.trial == trial:
                e.promoted = True
                self.promoted_from.setdefault(trial, set()).add(level)
                return True
        return False

    def rung_contents(self, sys_id):
        return {
            lv: sorted((e.trial, e.metric, e.promoted) for e in rung)
            for lv, rung in self.systems[sys_id].items()
        }
