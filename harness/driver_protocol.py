"""(A) Protocol driver: the harness plays the Tuner's role against a scheduler.

It performs exactly the calls ``Tuner._schedule_new_task`` and
``Tuner._update_running_trials`` perform (suggest / on_trial_add /
on_trial_result / on_trial_remove after STOP or PAUSE / on_trial_complete /
on_trial_error), but the *order* of worker events is chosen by the tape, so
every interleaving of up to ``n_workers`` concurrent trials is reachable.
"""
import datetime

from harness.tape import HarnessError, Violation


def make_time_keeper():
    from syne_tune.backend.time_keeper import TimeKeeper

    class HarnessTimeKeeper(TimeKeeper):
        def __init__(self):
            self.now = 0.0
            self._t0 = datetime.datetime(2024, 1, 1)

        def start_of_time(self):
            pass

        def time(self):
            return self.now

        def time_stamp(self):
            return self._t0 + datetime.timedelta(seconds=self.now)

        def advance(self, step):
            self.now += step

    return HarnessTimeKeeper()


class Event(dict):
    __getattr__ = dict.get


class ProtocolDriver:
    """
    :param sched: scheduler under test
    :param t: tape
    :param result_fn: ``(trial_id, config, level) -> dict`` result reported by
        the (virtual) training script at ``level`` (without resource attr)
    :param level_cap_fn: ``(config) -> int`` last level the script of a run
        reports before it ends on its own
    """

    def __init__(
        self,
        sched,
        t,
        result_fn,
        level_cap_fn,
        resource_attr="epoch",
        n_workers=2,
        max_trials=8,
        max_steps=60,
        checkpointing=True,
        allow_fail=False,
        time_keeper=None,
        fail_weight=1,
        sparse_reports=False,
        early_complete=False,
    ):
        self.sched = sched
        self.t = t
        self.result_fn = result_fn
        self.level_cap_fn = level_cap_fn
        self.resource_attr = resource_attr
        self.n_workers = n_workers
        self.max_trials = max_trials
        self.max_steps = max_steps
        self.checkpointing = checkpointing
        self.allow_fail = allow_fail
        self.fail_weight = fail_weight
        self.sparse_reports = sparse_reports
        self.early_complete = early_complete
        self.time_keeper = time_keeper
        self.trials = {}  # id -> Trial
        self.running = {}  # id -> dict(level=last reported level, run=run index)
        self.paused = {}  # id -> level paused at
        self.stopped = set()
        self.completed = set()
        self.failed = set()
        self.next_id = 0
        self.exhausted = False
        self.steps = 0
        self.trace = []
        self.n_resumes = 0
        self.n_stops = 0
        self.n_pauses = 0
        self.n_fails = 0
        self.last_result = {}

    # ------------------------------------------------------------------
    def _trial(self, trial_id, config):
        from syne_tune.backend.trial_status import Trial

        return Trial(trial_id=trial_id, config=config, creation_time=datetime.datetime(2024, 1, 1))

    def enabled(self):
        acts = []
        if len(self.running) < self.n_workers and not self.exhausted and (
            self.next_id < self.max_trials or self.paused
        ):
            acts.append("suggest")
        if self.running:
            acts.append("report")
            if self.allow_fail:
                acts.append("fail")
        return acts

    def done(self):
        return self.steps >= self.max_steps or not self.enabled()

    def step(self, force=None, force_tid=None):
        """Performs one protocol step and returns the event (or None)."""
        acts = self.enabled()
        if not acts or self.steps >= self.max_steps:
            return None
        self.steps += 1
        if force is not None and force in acts:
            act = force
        elif len(acts) == 1:
            act = acts[0]
        else:
            pairs = []
            for a in acts:
                w = {"report": 4, "suggest": 3, "fail": self.fail_weight}[a]
                pairs.append((w, a))
            # 'report' first so that shrinking prefers plain progress
            pairs.sort(key=lambda p: {"report": 0, "suggest": 1, "fail": 2}[p[1]])
            act = self.t.weighted(pairs)
        if self.time_keeper is not None:
            self.time_keeper.advance(self.t.weighted([(3, 1.0), (1, 0.0), (1, 7.5)]))
        if act == "suggest":
            ev = self._do_suggest()
        elif act == "report":
            tid = force_tid if force_tid in self.running else self._pick_running()
            ev = self._do_report(tid)
        else:
            tid = force_tid if force_tid in self.running else self._pick_running()
            ev = self._do_fail(tid)
        self.trace.append(ev)
        return ev

    def _pick_running(self):
        ids = sorted(self.running)
        return ids[self.t.index(len(ids))] if len(ids) > 1 else ids[0]

    # ------------------------------------------------------------------
    def _do_suggest(self):
        tid = self.next_id
        s = self.sched.suggest(tid)
        if s is None:
            self.exhausted = True
            return Event(op="suggest", kind="none", new_id=tid)
        if s.spawn_new_trial_id:
            if self.next_id >= self.max_trials:
                # the harness's trial budget is used up: treat like "no worker"
                # (the suggestion is started anyway, the scheduler registered it)
                pass
            config = dict(s.config)
            trial = self._trial(tid, config)
            self.trials[tid] = trial
            self.running[tid] = {"level": 0, "run": 0}
            self.next_id += 1
            self.sched.on_trial_add(trial)
            return Event(op="suggest", kind="start", trial_id=tid, config=config, checkpoint_trial_id=s.checkpoint_trial_id)
        rid = s.checkpoint_trial_id
        if rid not in self.paused:
            state = (
                "running" if rid in self.running else "stopped" if rid in self.stopped else "completed" if rid in self.completed else "failed" if rid in self.failed else "unknown"
            )
            raise Violation("resume-of-non-paused-trial", f"suggest({tid}) resumes trial {rid} which is {state}; trace tail={self.trace[-6:]}")
        level = self.paused.pop(rid)
        trial = self.trials[rid]
        if s.config is not None:
            trial = self._trial(rid, dict(s.config))
            self.trials[rid] = trial
        run = sum(1 for e in self.trace if e.get("op") == "suggest" and e.get("kind") == "resume" and e.get("trial_id") == rid) + 1
        self.running[rid] = {"level": level if self.checkpointing else 0, "run": run}
        self.n_resumes += 1
        return Event(op="suggest", kind="resume", trial_id=rid, new_id=tid, config=None if s.config is None else dict(s.config), resume_from=level)

    def _do_report(self, tid):
        st = self.running[tid]
        jump = 1
        if self.sparse_reports:
            # a script that does not report at every resource level (the
            # scheduler documents that it warns and carries on)
            jump = self.t.weighted([(5, 1), (1, 2), (1, 3)])
        # (drawn before the result: twin drivers replay the tape up to here identically, whatever their result functions draw)
        end_now = bool(self.early_complete and self.t.chance(1, 8))
        st["level"] += jump
        level = st["level"]
        trial = self.trials[tid]
        result = dict(self.result_fn(tid, trial.config, level))
        result[self.resource_attr] = level
        self.last_result[tid] = dict(result)
        dec = self.sched.on_trial_result(trial, dict(result))
        ev = Event(op="report", trial_id=tid, level=level, result=result, decision=dec, run=st["run"])
        if dec == "STOP":
            self.sched.on_trial_remove(trial)
            del self.running[tid]
            self.stopped.add(tid)
            self.n_stops += 1
        elif dec == "PAUSE":
            self.sched.on_trial_remove(trial)
            del self.running[tid]
            self.paused[tid] = level
            self.n_pauses += 1
        elif dec == "CONTINUE":
            cap = self.level_cap_fn(trial.config)
            # a training script may also end on its own before the maximum resource (early convergence)
            if level >= cap or end_now:
                self.sched.on_trial_complete(trial, dict(result))
                del self.running[tid]
                self.completed.add(tid)
                ev["completed"] = True
        else:
            raise Violation("illegal-decision", f"on_trial_result returned {dec!r}")
        return ev

    def _do_fail(self, tid):
        trial = self.trials[tid]
        st = self.running.pop(tid)
        self.failed.add(tid)
        self.n_fails += 1
        self.sched.on_trial_error(trial)
        return Event(op="fail", trial_id=tid, level=st["level"], run=st["run"])
