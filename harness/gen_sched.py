"""Generated scheduler + searcher constructor arguments (DESIGN.md section 4).

Only combinations the constructors document as legal are produced.
"""
from harness.tape import HarnessError

FAMILIES_MODEL_FREE = [
    "fifo-random",
    "fifo-grid",
    "hb-stopping",
    "hb-promotion",
    "hb-pasha",
    "hb-cost",
    "sync-hb",
    "dehb",
    "pbt",
    "moasha",
    "median",
    "rea",
]


class SchedSpec:
    def __init__(self, family, cls_name, kwargs, config_space, notes=None):
        self.family = family
        self.cls_name = cls_name
        self.kwargs = kwargs
        self.config_space = config_space
        self.notes = notes or {}
        self.pause_resume = family in ("hb-promotion", "hb-pasha", "hb-cost", "hb-rush-promotion", "sync-hb", "dehb")
        self.multi_fidelity = family not in ("fifo-random", "fifo-grid", "rea", "fifo-bo")

    def describe(self):
        d = {"family": self.family, "class": self.cls_name}
        d.update({k: v for k, v in self.kwargs.items() if k not in ("points_to_evaluate",)})
        return d

    def build(self):
        from syne_tune.optimizer.baselines import REA as RegularizedEvolution
        from syne_tune.optimizer.schedulers import FIFOScheduler, HyperbandScheduler, MedianStoppingRule, PopulationBasedTraining
        from syne_tune.optimizer.schedulers.multiobjective.moasha import MOASHA
        from syne_tune.optimizer.schedulers.synchronous import (
            DifferentialEvolutionHyperbandScheduler,
            SynchronousHyperbandScheduler,
        )

        cs = dict(self.config_space)
        kw = dict(self.kwargs)
        if self.cls_name == "FIFOScheduler":
            return FIFOScheduler(cs, **kw)
        if self.cls_name == "HyperbandScheduler":
            return HyperbandScheduler(cs, **kw)
        if self.cls_name == "SynchronousHyperbandScheduler":
            return SynchronousHyperbandScheduler(cs, **kw)
        if self.cls_name == "DEHB":
            return DifferentialEvolutionHyperbandScheduler(cs, **kw)
        if self.cls_name == "PBT":
            return PopulationBasedTraining(cs, **kw)
        if self.cls_name == "MOASHA":
            return MOASHA(cs, **kw)
        if self.cls_name == "Median":
            inner = FIFOScheduler(cs, **kw.pop("inner"))
            return MedianStoppingRule(scheduler=inner, **kw)
        if self.cls_name == "REA":
            return RegularizedEvolution(cs, **kw)
        raise HarnessError(self.cls_name)


def gen_sched(
    t,
    config_space,
    metric="loss",
    mode=None,
    max_t=9,
    resource_attr="epoch",
    families=None,
    max_resource_attr=None,
    second_metric=None,
    cost_attr=None,
    n_workers=4,
):
    """``config_space``: hyper-parameter domains only.  If ``max_resource_attr`` is
    given it is added as constant ``max_t``."""
    families = list(families or FAMILIES_MODEL_FREE)
    if second_metric is None and "moasha" in families:
        families.remove("moasha")
    if cost_attr is None and "hb-cost" in families:
        families.remove("hb-cost")
    fam = t.choice(families)
    if mode is None:
        mode = t.choice(["min", "max"])
    seed = t.int(0, 2**31 - 2)
    cs = dict(config_space)
    if max_resource_attr is not None:
        cs[max_resource_attr] = max_t
    base = dict(metric=metric, mode=mode, random_seed=seed)
    notes = {"mode": mode}
    if fam in ("fifo-random", "fifo-grid"):
        kw = dict(base, searcher="random" if fam == "fifo-random" else "grid")
        if max_resource_attr is None:
            pass
        return SchedSpec(fam, "FIFOScheduler", kw, cs, notes)
    if fam.startswith("hb-"):
        typ = {"hb-stopping": "stopping", "hb-promotion": "promotion", "hb-pasha": "pasha", "hb-cost": "cost_promotion",
               "hb-rush-stopping": "rush_stopping", "hb-rush-promotion": "rush_promotion"}[fam]
        kw = dict(base, searcher="random", type=typ, resource_attr=resource_attr)
        kind = t.weighted([(3, "rf"), (1, "incr")])
        grace = 1 if max_t <= 2 else t.weighted([(4, 1), (1, 2)])
        if kind == "rf":
            kw.update(grace_period=grace, reduction_factor=t.weighted([(2, 2), (2, 3), (1, 4)]))
        else:
            kw.update(grace_period=grace, rung_increment=t.int(1, 3))
        if typ == "pasha":
            # PASHA with a single rung level is a listed known finding (C04)
            from harness.ref_stopping import ref_rung_levels

            if len(ref_rung_levels(None, kw["grace_period"], kw.get("reduction_factor"), kw.get("rung_increment"), max_t)) < 2:
                typ = "promotion"
                kw["type"] = typ
                fam = "hb-promotion"
        if typ.startswith("rush"):
            # RUSH (opt-in family): one initial configuration (the mid-point), which is the threshold candidate or not
            # (round 4) ... or two initial configurations and up to two threshold candidates
            pts = [{}]
            if t.bool():
                for k in sorted(cs):
                    dom = cs[k]
                    if hasattr(dom, "categories") and len(dom.categories) > 1:
                        pts.append({k: dom.categories[-1]})
                        break
                    if hasattr(dom, "lower") and hasattr(dom, "upper") and dom.upper > dom.lower:
                        pts.append({k: dom.lower})
                        break
            kw["points_to_evaluate"] = pts
            kw["rung_system_kwargs"] = {"num_threshold_candidates": t.int(0, len(pts))}
            kw["brackets"] = 1
        elif typ != "pasha":
            b = t.weighted([(3, 1), (1, 2), (1, 3)])
            kw["brackets"] = b
            if b > 1:
                kw["rung_system_per_bracket"] = t.bool()
        if typ == "cost_promotion":
            kw["cost_attr"] = cost_attr
        if max_resource_attr is not None:
            kw["max_resource_attr"] = max_resource_attr
        else:
            kw["max_t"] = max_t
        if max_t <= grace:
            kw["grace_period"] = 1
        return SchedSpec(fam, "HyperbandScheduler", kw, cs, notes)
    if fam in ("sync-hb", "dehb"):
        # rung system: levels increasing up to max_t, sizes decreasing
        nr = min(t.weighted([(2, 2), (2, 3), (1, 1)]), max_t)
        levels = sorted({max(1, round(max_t * (i + 1) / nr)) for i in range(nr)})
        levels[-1] = max_t
        nr = len(levels)
        sizes = []
        s = 0
        for _ in range(nr):
            s += t.int(1, 3)
            sizes.append(s)
        sizes = sizes[::-1]
        first = list(zip(sizes, levels))
        kw = dict(base, resource_attr=resource_attr, search_options={"debug_log": False})
        if max_resource_attr is not None:
            kw["max_resource_attr"] = max_resource_attr
        else:
            kw["max_resource_level"] = max_t
        if fam == "sync-hb":
            nb = t.int(1, nr)
            rs = [first]
            for off in range(1, nb):
                k = nr - off
                sz = []
                s = 0
                for _ in range(k):
                    s += t.int(1, 3)
                    sz.append(s)
                rs.append(list(zip(sz[::-1], levels[off:])))
            kw["bracket_rungs"] = rs
            kw["searcher"] = "random"
            return SchedSpec(fam, "SynchronousHyperbandScheduler", kw, cs, dict(notes, rungs=rs))
        # DEHB: stay clear of its listed known findings (C05): first rung >= max(3, n_workers), all brackets per iteration
        if first[0][0] < max(3, n_workers):
            bump = max(3, n_workers) - first[0][0]
            first = [(sz + bump, lv) for sz, lv in first]
        kw["rungs_first_bracket"] = first
        kw["num_brackets_per_iteration"] = len(first)
        return SchedSpec(fam, "DEHB", kw, cs, dict(notes, rungs=[first[o:] for o in range(len(first))]))
    if fam == "pbt":
        kw = dict(
            base,
            resource_attr=resource_attr,
            max_t=max_t,
            population_size=t.int(2, 4),
            perturbation_interval=t.weighted([(3, 1), (2, 2), (1, 3)]),
            quantile_fraction=t.weighted([(2, 0.25), (2, 0.5), (1, 0.1)]),
            resample_probability=t.weighted([(2, 0.25), (1, 0.0), (1, 1.0)]),
        )
        return SchedSpec(fam, "PBT", kw, cs, notes)
    if fam == "moasha":
        modes = [t.choice(["min", "max"]), t.choice(["min", "max"])]
        kw = dict(
            metrics=[metric, second_metric],
            mode=modes,
            time_attr=resource_attr,
            max_t=max_t,
            grace_period=1,
            reduction_factor=t.weighted([(2, 2), (2, 3), (1, 4)]),
            brackets=t.weighted([(3, 1), (1, 2)]),
        )
        return SchedSpec(fam, "MOASHA", kw, cs, dict(notes, mode=modes))
    if fam == "median":
        kw = dict(
            inner=dict(base, searcher="random"),
            resource_attr=resource_attr,
            running_average=t.bool(),
            metric=metric,
            grace_time=t.weighted([(2, 1), (1, 2), (1, None)]),
            grace_population=t.int(1, 4),
            rank_cutoff=t.weighted([(2, 0.5), (1, 0.25), (1, 0.75)]),
        )
        return SchedSpec(fam, "Median", kw, cs, notes)
    if fam == "rea":
        kw = dict(base, population_size=t.int(2, 6), sample_size=t.int(1, 3))
        return SchedSpec(fam, "REA", kw, cs, notes)
    raise HarnessError(fam)
