"""(B2) Scripted file back-end: the generic poll / file logic of LocalBackend
and TrialBackend under the real Tuner, without sub-processes (DESIGN.md 5.3).

Only ``_schedule`` is replaced (no Popen: a fake process object with
``poll()/kill()``); std.out files are written by the harness in the real report
format and read / parsed / sliced by the real code.
"""
import os

from harness import driver_sim
from harness.tape import HarnessError, Violation

TAG = "[tune-metric]"


class FakeProcess:
    def __init__(self, backend, trial_id, run_index, lines, exit_code, noise=None):
        self.backend = backend
        self.trial_id = trial_id
        self.run_index = run_index
        self.lines = list(lines)  # report dicts still to be written
        self.exit_code = exit_code
        self.written = 0
        self.exit_visible = False
        self.killed = False
        self.returncode = None

    def poll(self):
        if self.killed:
            return -9
        if self.exit_visible:
            return self.exit_code
        if getattr(self.backend, "poll_race", False):
            # the worker is asynchronous: it may write further lines, or finish, at the very moment its status is read
            t = self.backend.tape
            what = t.weighted([(6, "none"), (1, "finish"), (1, "some")])
            remaining = len(self.lines) - self.written
            if what == "some" and remaining > 0:
                self.backend._write_line(self)
            elif what == "finish":
                for _ in range(remaining):
                    self.backend._write_line(self)
                self.exit_visible = True
                self.backend.rec.add("script.exit", trial_id=self.trial_id, run=self.run_index, code=self.exit_code, during_status_read=True)
                return self.exit_code
        return None

    def kill(self):
        if self.killed or self.exit_visible:
            return
        # the kill is asynchronous: the script may have written more lines
        # between the last poll and the moment it dies
        t = self.backend.tape
        remaining = len(self.lines) - self.written
        late = 0
        if remaining > 0 and self.backend.allow_late_lines:
            late = t.weighted([(5, 0), (2, 1), (1, 2)])
            late = min(late, remaining)
        for _ in range(late):
            self.backend._write_line(self, late=True)
        self.killed = True
        self.backend.rec.add("script.killed", trial_id=self.trial_id, run=self.run_index, late_lines=late)

    @property
    def alive(self):
        return not self.killed and not self.exit_visible


def make_backend_class():
    from syne_tune.backend.local_backend import LocalBackend

    class ScriptedLocalBackend(LocalBackend):
        def __init__(self, tape, rec, script_fn, delete_checkpoints=False, allow_late_lines=True, batch_max=4, external_stop=False, poll_race=False):
            super().__init__(entry_point=__file__, delete_checkpoints=delete_checkpoints, rotate_gpus=False)
            self.tape = tape
            self.rec = rec
            self.script_fn = script_fn
            self.allow_late_lines = allow_late_lines
            self.batch_max = batch_max
            self.external_stop = external_stop
            self.poll_race = poll_race
            self.procs = {}  # trial -> list of FakeProcess (one per run)
            self.ts_counter = 1000.0
            self.paused_level = {}

        # -- the only replaced piece of LocalBackend -------------------
        def _schedule(self, trial_id, config):
            trial_path = self.trial_path(trial_id)
            os.makedirs(trial_path, exist_ok=True)
            ck = self.checkpoint_trial_path(trial_id)
            existed = os.path.isdir(ck)
            runs = self.procs.setdefault(trial_id, [])
            run_index = len(runs)
            self.rec.add("script.start", trial_id=trial_id, run=run_index, checkpoint_dir_existed=existed, config=dict(config))
            # as the real _schedule does: std.out / std.err exist from the start
            open(trial_path / "std.out", "a").close()
            open(trial_path / "std.err", "a").close()
            os.makedirs(ck, exist_ok=True)
            with open(os.path.join(ck, "ckpt"), "a") as f:
                f.write(f"run {run_index}\n")
            lines, exit_code = self.script_fn(trial_id, run_index, dict(config), self.paused_level.get(trial_id))
            proc = FakeProcess(self, trial_id, run_index, lines, exit_code)
            runs.append(proc)
            self.trial_subprocess[trial_id] = proc
            self._busy_trial_id_candidates.add(trial_id)

        def _write_line(self, proc, late=False):
            from syne_tune.report import _serialize_report_dict

            d = dict(proc.lines[proc.written])
            self.ts_counter += 1.0
            d["st_worker_timestamp"] = self.ts_counter
            d["st_worker_iter"] = proc.written
            d["run"] = proc.run_index
            d["seq"] = proc.written
            proc.written += 1
            with open(self.trial_path(proc.trial_id) / "std.out", "a") as f:
                f.write(f"{TAG}: {_serialize_report_dict(d)}\n")
            self.rec.add("script.report", trial_id=proc.trial_id, run=proc.run_index, seq=d["seq"], late=late, report=d)

        def _pause_trial(self, trial_id, result):
            if result is not None and "epoch" in result:
                self.paused_level[trial_id] = int(result["epoch"])
            super()._pause_trial(trial_id, result)

        def _progress(self, trial_ids):
            """Between two polls: every live script writes 0..k more lines (the
            interleaving across trials is a tape choice) and may exit."""
            t = self.tape
            live = [self.trial_subprocess[tid] for tid in sorted(self.trial_subprocess) if self.trial_subprocess[tid].alive]
            todo = []
            for p in live:
                remaining = len(p.lines) - p.written
                k = 0
                if remaining > 0:
                    k = min(t.weighted([(4, 1), (2, 0), (2, 2), (1, 3), (1, self.batch_max)]), remaining)
                todo += [p] * k
            if len({id(p) for p in todo}) > 1:
                todo = t.permutation(todo)
                # keep per-process order implicit: lines of one process are written in order anyway
            for p in todo:
                self._write_line(p)
            if self.external_stop:
                # a trial stopped from outside the scheduler: somebody writes the stop file and the job dies
                for p in live:
                    if p.alive and t.chance(1, 8):
                        self._file_path(trial_id=p.trial_id, filename="stop").touch()
                        p.killed = True
                        self.rec.add("script.external_stop", trial_id=p.trial_id, run=p.run_index)
            for p in live:
                if not p.alive:
                    continue
                if p.written >= len(p.lines):
                    # completion may become visible in the same poll as the last lines, or later
                    if t.weighted([(3, True), (1, False)]):
                        p.exit_visible = True
                        self.rec.add("script.exit", trial_id=p.trial_id, run=p.run_index, code=p.exit_code)

        def fetch_status_results(self, trial_ids):
            self._progress(trial_ids)
            return super().fetch_status_results(trial_ids)

    return ScriptedLocalBackend


_CLS = None


def backend_class():
    global _CLS
    if _CLS is None:
        _CLS = make_backend_class()
    return _CLS


class ScriptedRun:
    pass


def run_scripted(
    t,
    scheduler,
    script_fn,
    n_workers,
    stop_criterion,
    delete_checkpoints=False,
    allow_late_lines=True,
    tuner_flags=None,
    extra_callbacks=(),
    max_failures=1,
    max_loops=3000,
    results_update_interval=1e9,
    outside_time=False,
    external_stop=False,
    poll_race=False,
):
    from syne_tune import Tuner
    from syne_tune.results_callback import StoreResultsCallback

    clock = driver_sim.install_clock()
    clock.now = 1.0e6
    driver_sim.tmp_root()
    driver_sim.clean_tmp()
    rec = driver_sim.Recorder()
    be = backend_class()(t, rec, script_fn, delete_checkpoints=delete_checkpoints, allow_late_lines=allow_late_lines, external_stop=external_stop, poll_race=poll_race)
    driver_sim.instrument_scheduler(scheduler, rec)
    driver_sim.instrument_backend(be, rec, sim_time=None)
    store = StoreResultsCallback()
    monitor = driver_sim.make_monitor(rec, t, clock, outside_time=outside_time, sim_time=None, max_loops=max_loops)
    flags = dict(tuner_flags or {})
    tuner = Tuner(
        trial_backend=be,
        scheduler=scheduler,
        stop_criterion=stop_criterion,
        n_workers=n_workers,
        sleep_time=0,
        callbacks=[store, monitor] + list(extra_callbacks),
        max_failures=max_failures,
        save_tuner=flags.pop("save_tuner", False),
        suffix_tuner_name=False,
        tuner_name=f"s{os.getpid()}",
        print_update_interval=1e9,
        results_update_interval=results_update_interval,
        **flags,
    )
    run = ScriptedRun()
    run.exception = None
    run.loop_guard = False
    try:
        tuner.run()
    except Violation:
        raise
    except driver_sim.LoopGuardExceeded as e:
        run.loop_guard = True
        run.exception = e
    except Exception as e:
        if type(e).__module__.startswith("hypothesis") or getattr(t, "dead", False):
            raise
        run.exception = e
    if getattr(t, "dead", False):
        # the example was abandoned by Hypothesis while the tuner was unwinding
        if getattr(t, "stop_exc", None) is not None:
            raise t.stop_exc
        raise HarnessError("tape died without StopTest")
    run.rec = rec
    run.events = rec.events
    run.tuner = tuner
    run.backend = be
    run.scheduler = scheduler
    run.store = store
    run.n_workers = n_workers
    return run


# ----------------------------------------------------------------------------
class ScriptedDecisionScheduler:
    """Built lazily (needs syne_tune): a TrialScheduler whose decisions and
    resume suggestions are tape choices — reaches every sequence of
    stop / pause / resume decisions without waiting for a rung rule."""


def make_decision_scheduler(t, max_trials=6, allow_pause=True):
    from syne_tune.config_space import uniform
    from syne_tune.optimizer.scheduler import SchedulerDecision, TrialScheduler, TrialSuggestion

    class _Sched(TrialScheduler):
        def __init__(self):
            super().__init__({"x": uniform(0.0, 1.0)})
            self.paused = []
            self.started = 0
            self.metric = "loss"
            self.mode = "min"

        def _suggest(self, trial_id):
            if self.paused and (self.started >= max_trials or t.weighted([(1, True), (1, False)])):
                tid = self.paused.pop(t.index(len(self.paused)) if len(self.paused) > 1 else 0)
                return TrialSuggestion.resume_suggestion(trial_id=tid)
            if self.started >= max_trials:
                return None
            self.started += 1
            return TrialSuggestion.start_suggestion({"x": (trial_id % 10) / 10.0})

        def on_trial_result(self, trial, result):
            opts = [(5, SchedulerDecision.CONTINUE), (2, SchedulerDecision.STOP)]
            if allow_pause:
                opts.append((2, SchedulerDecision.PAUSE))
            d = t.weighted(opts)
            if d == SchedulerDecision.PAUSE:
                self.paused.append(trial.trial_id)
            return d

        def on_trial_error(self, trial):
            if trial.trial_id in self.paused:
                self.paused.remove(trial.trial_id)

        def metric_names(self):
            return ["loss"]

        def metric_mode(self):
            return "min"

    return _Sched()
