"""(B1) Simulator driver: the real Tuner + UserBlackboxBackend on generated
tables, with a recorder that logs every back-end call, scheduler notification
and tuning-loop event in one ordered history (DESIGN.md 5.2, 5.4).

The recorder only records; it never changes what the code does.
"""
import copy
import os
import shutil
import tempfile

from harness.tape import HarnessError, Violation


class FakeClock:
    """Stands in for the ``time`` module inside the simulator's time keeper, the
    tuner, the tuning status and the results callback: wall-clock time becomes a
    value the harness owns."""

    def __init__(self):
        self.now = 1.0e6

    def time(self):
        return self.now

    def perf_counter(self):
        return self.now

    def sleep(self, secs):
        pass

    def __getattr__(self, name):
        import time as _t

        return getattr(_t, name)


CLOCK = FakeClock()
_INSTALLED = False


def install_clock():
    global _INSTALLED
    if _INSTALLED:
        return CLOCK
    import syne_tune.backend.simulator_backend.time_keeper as tk
    import syne_tune.results_callback as rc
    import syne_tune.tuner as tuner_mod
    import syne_tune.tuning_status as ts

    tk.time = CLOCK
    tuner_mod.time = CLOCK
    ts.time = CLOCK
    rc.perf_counter = CLOCK.perf_counter
    _INSTALLED = True
    return CLOCK


_TMPROOT = None


def tmp_root():
    """One scratch directory per process (SYNETUNE_FOLDER), removed at exit."""
    global _TMPROOT
    if _TMPROOT is None or _TMPROOT[0] != os.getpid():
        d = tempfile.mkdtemp(prefix="verif_st_")
        os.environ["SYNETUNE_FOLDER"] = d
        import atexit

        atexit.register(lambda d=d: shutil.rmtree(d, ignore_errors=True))
        _TMPROOT = (os.getpid(), d)
    return _TMPROOT[1]


def clean_tmp():
    d = tmp_root()
    for name in os.listdir(d):
        shutil.rmtree(os.path.join(d, name), ignore_errors=True)


class Recorder:
    def __init__(self):
        self.events = []

    def add(self, kind, **kw):
        kw["kind"] = kind
        kw["i"] = len(self.events)
        self.events.append(kw)
        return kw

    def of(self, *kinds):
        return [e for e in self.events if e["kind"] in kinds]


def _wrap(obj, name, fn):
    orig = getattr(obj, name)

    def wrapper(*a, **k):
        return fn(orig, *a, **k)

    setattr(obj, name, wrapper)
    return orig


def instrument_scheduler(sched, rec):
    def suggest(orig, trial_id):
        ret = orig(trial_id)
        if ret is None:
            rec.add("sched.suggest", new_id=trial_id, ret=None)
        else:
            rec.add(
                "sched.suggest",
                new_id=trial_id,
                ret="start" if ret.spawn_new_trial_id else "resume",
                checkpoint_trial_id=ret.checkpoint_trial_id,
                config=None if ret.config is None else dict(ret.config),
            )
        return ret

    def on_trial_add(orig, trial):
        rec.add("sched.add", trial_id=trial.trial_id)
        return orig(trial)

    def on_trial_result(orig, trial, result):
        res_copy = dict(result)
        dec = orig(trial, result)
        rec.add("sched.result", trial_id=trial.trial_id, result=res_copy, decision=dec, config=dict(trial.config))
        return dec

    def on_trial_remove(orig, trial):
        rec.add("sched.remove", trial_id=trial.trial_id)
        return orig(trial)

    def on_trial_complete(orig, trial, result):
        rec.add("sched.complete", trial_id=trial.trial_id, result=dict(result))
        return orig(trial, result)

    def on_trial_error(orig, trial):
        rec.add("sched.error", trial_id=trial.trial_id)
        return orig(trial)

    for name, fn in [
        ("suggest", suggest),
        ("on_trial_add", on_trial_add),
        ("on_trial_result", on_trial_result),
        ("on_trial_remove", on_trial_remove),
        ("on_trial_complete", on_trial_complete),
        ("on_trial_error", on_trial_error),
    ]:
        _wrap(sched, name, fn)


def instrument_backend(be, rec, sim_time=None):
    def now():
        try:
            return sim_time() if sim_time else None
        except Exception:
            return None

    def start_trial(orig, config, checkpoint_trial_id=None):
        t0 = now()
        e = rec.add("be.start", config=dict(config), checkpoint_trial_id=checkpoint_trial_id, t_call=t0, trial_id=None)
        trial = orig(config=config, checkpoint_trial_id=checkpoint_trial_id)
        e["trial_id"] = trial.trial_id
        e["t_ret"] = now()
        return trial

    def resume_trial(orig, trial_id, new_config=None):
        t0 = now()
        e = rec.add("be.resume", trial_id=trial_id, new_config=None if new_config is None else dict(new_config), t_call=t0)
        trial = orig(trial_id=trial_id, new_config=new_config)
        e["t_ret"] = now()
        e["ok"] = True
        return trial

    def pause_trial(orig, trial_id, result=None):
        e = rec.add("be.pause", trial_id=trial_id, result=None if result is None else dict(result), t_call=now())
        r = orig(trial_id=trial_id, result=result)
        e["t_ret"] = now()
        return r

    def stop_trial(orig, trial_id, result=None):
        e = rec.add("be.stop", trial_id=trial_id, result=None if result is None else dict(result), t_call=now())
        r = orig(trial_id=trial_id, result=result)
        e["t_ret"] = now()
        return r

    def fetch(orig, trial_ids):
        t0 = now()
        status, results = orig(trial_ids)
        rec.add(
            "fetch",
            asked=sorted(trial_ids),
            status={tid: st for tid, (_, st) in status.items()},
            results=[(tid, dict(r)) for tid, r in results],
            t_call=t0,
            t_ret=now(),
        )
        return status, results

    def busy(orig):
        r = orig()
        rec.add("be.busy", busy=sorted(x[0] for x in r))
        return r

    def stop_all(orig):
        rec.add("be.stop_all")
        return orig()

    def delete_checkpoint(orig, trial_id):
        rec.add("be.delete_checkpoint", trial_id=trial_id)
        return orig(trial_id)

    def copy_checkpoint(orig, src_trial_id, tgt_trial_id):
        rec.add("be.copy_checkpoint", src=src_trial_id, tgt=tgt_trial_id)
        return orig(src_trial_id, tgt_trial_id)

    for name, fn in [
        ("start_trial", start_trial),
        ("resume_trial", resume_trial),
        ("pause_trial", pause_trial),
        ("stop_trial", stop_trial),
        ("fetch_status_results", fetch),
        ("busy_trial_ids", busy),
        ("stop_all", stop_all),
        ("delete_checkpoint", delete_checkpoint),
        ("copy_checkpoint", copy_checkpoint),
    ]:
        _wrap(be, name, fn)


def make_monitor(rec, t, clock, outside_time=True, sim_time=None, max_loops=20000):
    from syne_tune.tuner_callback import TunerCallback

    class Monitor(TunerCallback):
        def __init__(self):
            self.tuner = None

        def on_tuning_start(self, tuner):
            self.tuner = tuner
            rec.add("tuning_start")
            # record every evaluation of the stopping criterion (installed after
            # SimulatorCallback may have replaced it)
            crit = tuner.stop_criterion

            def recording(status):
                v = crit(status)
                rec.add("crit", value=bool(v), t=None if sim_time is None else sim_time(), clock=clock.now)
                return v

            tuner.stop_criterion = recording

        def on_loop_start(self):
            self.loops = getattr(self, "loops", 0) + 1
            if self.loops > max_loops:
                raise LoopGuardExceeded(f"{max_loops} tuning-loop iterations")
            if outside_time:
                dt = t.weighted([(5, 0.0), (2, 0.001), (1, 0.3), (1, 7.0)])
                clock.now += dt
            rec.add("loop_start", t=None if sim_time is None else sim_time())

        def on_loop_end(self):
            st = self.tuner.tuning_status
            rec.add(
                "loop_end",
                t=None if sim_time is None else sim_time(),
                num_started=st.num_trials_started,
                num_completed=st.num_trials_completed,
                num_failed=st.num_trials_failed,
                num_finished=st.num_trials_finished,
                num_running=st.num_trials_running,
                num_results=getattr(st, "num_results", None),
            )

        def on_tuning_sleep(self, sleep_time):
            rec.add("sleep", t=None if sim_time is None else sim_time())

        def on_tuning_end(self):
            rec.add("tuning_end")

        def on_start_trial(self, trial):
            rec.add("cb.start", trial_id=trial.trial_id)

        def on_resume_trial(self, trial):
            rec.add("cb.resume", trial_id=trial.trial_id)

        def on_trial_result(self, trial, status, result, decision):
            rec.add("cb.result", trial_id=trial.trial_id, status=status, result=dict(result), decision=decision, config=dict(trial.config))

        def on_trial_complete(self, trial, result):
            rec.add("cb.complete", trial_id=trial.trial_id)

    return Monitor()


class SimRun:
    pass


class LoopGuardExceeded(Exception):
    pass


def gen_sim_config(t):
    from syne_tune.backend.simulator_backend.simulator_backend import SimulatorConfig

    def d():
        return t.weighted([(3, 0.1), (2, 0.0), (1, 1.0), (1, 0.01), (1, 5.0)])

    a = d()
    b = d()
    cfg = dict(
        delay_on_trial_result=min(a, b),
        delay_complete_after_final_report=max(a, b),
        delay_complete_after_stop=d(),
        delay_start=d(),
        delay_stop=d(),
    )
    return SimulatorConfig(**cfg), cfg


def gen_stop_criterion(t, simple=False):
    """Returns (StoppingCriterion, dict of fields)."""
    from syne_tune import StoppingCriterion

    fields = {}
    if simple:
        fields["max_num_trials_started"] = t.int(2, 12)
    else:
        opts = ["max_num_trials_started", "max_num_evaluations", "max_num_trials_completed", "max_num_trials_finished", "max_wallclock_time"]
        first = t.choice(opts)
        chosen = [first] + [o for o in opts if o != first and t.chance(1, 5)]
        if not any(o in chosen for o in ("max_num_trials_started", "max_num_evaluations", "max_wallclock_time")):
            # completed / finished counts need not ever be reached (e.g. a scheduler that
            # stops every trial never completes one): add a bound that always triggers
            fields["max_num_trials_started"] = t.int(8, 30)
        for o in chosen:
            if o == "max_wallclock_time":
                fields[o] = t.weighted([(2, 10.0), (1, 3.0), (1, 50.0), (1, 200.0)])
            elif o == "max_num_evaluations":
                fields[o] = t.int(1, 40)
            else:
                fields[o] = t.int(1, 12)
    return StoppingCriterion(**fields), fields


def run_simulation(
    t,
    table,
    spec,
    n_workers,
    stop_criterion,
    sim_config=None,
    tuner_sleep_time=None,
    support_checkpointing=True,
    backend_seed=0,
    use_mra=False,
    tuner_flags=None,
    extra_callbacks=(),
    outside_time=True,
    max_failures=1,
    scheduler=None,
):
    """Builds back-end, scheduler, tuner; runs; returns a SimRun."""
    from syne_tune import Tuner
    from syne_tune.backend.simulator_backend.simulator_callback import SimulatorCallback
    from syne_tune.blackbox_repository.simulated_tabular_backend import UserBlackboxBackend

    clock = install_clock()
    clock.now = 1.0e6
    tmp_root()
    clean_tmp()
    rec = Recorder()
    if sim_config is None:
        sim_config, sim_cfg_d = gen_sim_config(t)
    else:
        sim_cfg_d = None
    if tuner_sleep_time is None:
        # relative to the time scale of the table, so that polls fall between
        # reports (small values) as well as after several reports (large values)
        unit = 1.0
        for lab in table.labels:
            if lab == "time-tiny":
                unit = 0.004
            elif lab == "time-huge":
                unit = 300.0
        tuner_sleep_time = unit * t.weighted([(3, 0.5), (2, 5.0), (2, 0.05), (1, 0.01), (1, 50.0)])
    be = UserBlackboxBackend(
        blackbox=table.blackbox,
        elapsed_time_attr=table.time_attr,
        max_resource_attr="epochs" if use_mra else None,
        seed=backend_seed,
        support_checkpointing=support_checkpointing,
        simulator_config=sim_config,
        tuner_sleep_time=tuner_sleep_time,
    )
    sched = scheduler if scheduler is not None else spec.build()
    sim_time = be.time_keeper.time
    instrument_scheduler(sched, rec)
    instrument_backend(be, rec, sim_time=lambda: be.time_keeper.time() if be.time_keeper._current_time is not None else None)
    # the (virtual) training script supports checkpointing: its checkpoint
    # directory exists once it has been scheduled (needed by copy_checkpoint)
    def _schedule(orig, trial_id, config):
        os.makedirs(be.checkpoint_trial_path(trial_id), exist_ok=True)
        return orig(trial_id=trial_id, config=config)

    _wrap(be, "_schedule", _schedule)
    sim_cb = SimulatorCallback()
    monitor = make_monitor(rec, t, clock, outside_time=outside_time, sim_time=lambda: be.time_keeper.time())
    flags = dict(tuner_flags or {})
    tuner = Tuner(
        trial_backend=be,
        scheduler=sched,
        stop_criterion=stop_criterion,
        n_workers=n_workers,
        sleep_time=0,
        callbacks=[sim_cb, monitor] + list(extra_callbacks),
        max_failures=max_failures,
        save_tuner=flags.pop("save_tuner", False),
        suffix_tuner_name=False,
        tuner_name=f"v{os.getpid()}",
        print_update_interval=1e9,
        **flags,
    )
    run = SimRun()
    run.exception = None
    run.loop_guard = False
    try:
        tuner.run()
    except Violation:
        raise
    except LoopGuardExceeded as e:
        run.loop_guard = True
        run.exception = e
    except Exception as e:
        if type(e).__module__.startswith("hypothesis") or getattr(t, "dead", False):
            raise
        run.exception = e
    if getattr(t, "dead", False):
        # the example was abandoned by Hypothesis while the tuner was unwinding
        if getattr(t, "stop_exc", None) is not None:
            raise t.stop_exc
        raise HarnessError("tape died without StopTest")
    run.rec = rec
    run.events = rec.events
    run.tuner = tuner
    run.backend = be
    run.scheduler = sched
    run.sim_callback = sim_cb
    run.sim_config = sim_cfg_d
    run.tuner_sleep_time = tuner_sleep_time
    run.table = table
    run.n_workers = n_workers
    return run
