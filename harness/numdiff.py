"""Numerical derivatives with an error estimate (Ridders' extrapolation of central differences)."""
import math


def ridders(f, h0, con=1.4, ntab=10, safe=2.0):
    """Derivative of the scalar function f(s) at s = 0; returns (estimate, error estimate).
    f is evaluated at +-h0 / con^k.  The error estimate is the usual one of Ridders' method: the
    smallest difference between neighbouring entries of the extrapolation tableau."""
    con2 = con * con
    a = [[0.0] * ntab for _ in range(ntab)]
    h = h0
    a[0][0] = (f(h) - f(-h)) / (2.0 * h)
    err = math.inf
    ans = a[0][0]
    for i in range(1, ntab):
        h /= con
        a[0][i] = (f(h) - f(-h)) / (2.0 * h)
        fac = con2
        for j in range(1, i + 1):
            a[j][i] = (a[j - 1][i] * fac - a[j - 1][i - 1]) / (fac - 1.0)
            fac *= con2
            errt = max(abs(a[j][i] - a[j - 1][i]), abs(a[j][i] - a[j - 1][i - 1]))
            if errt <= err:
                err = errt
                ans = a[j][i]
        if abs(a[i][i] - a[i - 1][i - 1]) >= safe * err:
            break
    if not (math.isfinite(ans) and math.isfinite(err)):
        return float("nan"), math.inf
    return ans, err


SCALES = (1.0, 1e-1, 1e-2, 1e-3, 1e-4, 1e-5, 1e-6)


def check_derivative(f, analytic, h_max, fscale, f_noise=0.0, rel=2e-5, mismatch_rel=1e-3):
    """Compares an analytic directional derivative with Ridders runs at step scales h_max * 10^-k.

    Returns ("ok" | "inconclusive" | "mismatch", runs).  A run is conclusive if its error estimate is
    small against the derivative and if the round-off of f (``f_noise``: absolute error of one evaluation,
    which is correlated between neighbouring points and therefore invisible to the error estimate) divided
    by its smallest step is small as well.  Coarse runs can be confidently wrong when f has structure below
    their step size, fine runs drown in round-off; so:

    * ok           — some run whose extrapolation settled agrees with the analytic value to ``rel``;
    * mismatch     — no such run, at least two runs are conclusive, the two finest conclusive runs agree with each
                     other, differ from the analytic value by more than ``mismatch_rel``, and no finer run contradicts them;
    * inconclusive — otherwise."""
    runs = []
    floor = 1e-7 * fscale

    def agree(a, ea, b, eb):
        return abs(a - b) <= max(300.0 * max(ea, eb), rel * max(abs(a), abs(b)) + floor)

    for sc in SCALES:
        h0 = h_max * sc
        est, err = ridders(f, h0)
        if not (math.isfinite(est) and math.isfinite(err)):
            runs.append((h0, est, err, False))
            continue
        mag = max(abs(est), abs(analytic))
        noise = 40.0 * f_noise / h0  # smallest step of a run is about h0 / 20
        conclusive = err <= 1e-4 * mag + floor and noise <= 1e-4 * mag + floor
        runs.append((h0, est, err, conclusive))
        # a run whose extrapolation settled and which reproduces the analytic value to 2e-5 is evidence for it, whatever the
        # round-off bound says (noise does not reproduce a number to five digits by chance)
        if err <= 1e-4 * mag + floor and agree(analytic, 0.0, est, err):
            return "ok", runs
    concl = [r for r in runs if r[3]]
    if len(concl) >= 2 and agree(concl[-1][1], concl[-1][2], concl[-2][1], concl[-2][2]):
        ref = concl[-1][1]
        # coarse runs can all have stepped over a narrow feature of f (a smoothed kink gives the same wrong slope at every
        # step above its width).  Hence: (i) only a deviation far above the tolerance of "ok" counts, (ii) a finer run
        # that did not qualify as conclusive still vetoes when it contradicts the reference beyond its own error estimate
        # and round-off bound
        if abs(analytic - ref) <= mismatch_rel * max(abs(analytic), abs(ref)) + 10.0 * floor:
            return "inconclusive", runs
        for h0, est, err, ok in runs:
            if ok or h0 >= concl[-1][0] or not (math.isfinite(est) and math.isfinite(err)):
                continue
            if abs(est - ref) > 300.0 * err + rel * abs(ref) + floor + 40.0 * f_noise / h0:
                return "inconclusive", runs
        return "mismatch", runs
    return "inconclusive", runs
