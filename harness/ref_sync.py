"""Reference model of the bracket / rung book-keeping of synchronous Hyperband
(and of DEHB's bracket manager), written from the class doc-strings.
No syne_tune import."""
import math


def key_of(metric, mode):
    """Sort key in which smaller is better and failed (NaN) entries come last."""
    if metric is None or (isinstance(metric, float) and math.isnan(metric)):
        return math.inf
    return metric if mode == "min" else -metric


class RefBracket:
    def __init__(self, bracket_id, offset, rungs):
        self.bracket_id = bracket_id
        self.offset = offset
        self.rungs = list(rungs)  # [(size, level)]
        self.cur = 0
        self.history = []  # completed rungs: list of [(trial, metric)]
        self._open_rung()

    def _open_rung(self):
        if self.cur < len(self.rungs):
            size, level = self.rungs[self.cur]
            self.slots = [{"trial": None, "state": "free", "metric": None} for _ in range(size)]
        else:
            self.slots = []

    @property
    def complete(self):
        return self.cur >= len(self.rungs)

    @property
    def level(self):
        return self.rungs[self.cur][1]

    def has_free(self):
        return (not self.complete) and any(s["state"] == "free" for s in self.slots)

    def num_pending(self):
        return sum(1 for s in self.slots if s["state"] == "pending")

    def handed_out(self):
        return [s["trial"] for s in self.slots if s["state"] != "free"]


class RefSync:
    def __init__(self, bracket_rungs, mode):
        self.bracket_rungs = [list(r) for r in bracket_rungs]
        self.mode = mode
        self.brackets = []
        self.primary = self._new_bracket()

    def _new_bracket(self):
        bid = len(self.brackets)
        off = bid % len(self.bracket_rungs)
        self.brackets.append(RefBracket(bid, off, self.bracket_rungs[off]))
        return bid

    # ------------------------------------------------------------------
    def expect_next_job(self):
        """(bracket_id, rung_index, level, creates_new_bracket) of the job the
        documented rule hands out next: lowest open bracket id with a free
        slot, else a new bracket."""
        for bid in range(self.primary, len(self.brackets)):
            b = self.brackets[bid]
            if b.has_free():
                return bid, b.cur, b.level, False
        bid = len(self.brackets)
        off = bid % len(self.bracket_rungs)
        size, level = self.bracket_rungs[off][0]
        return bid, 0, level, True

    def assign(self, bracket_id, trial):
        """Marks the next free slot of the bracket's current rung as pending
        for ``trial``; returns the slot position."""
        if bracket_id == len(self.brackets):
            self._new_bracket()
        b = self.brackets[bracket_id]
        for pos, s in enumerate(b.slots):
            if s["state"] == "free":
                s["state"] = "pending"
                s["trial"] = trial
                return pos
        raise AssertionError("no free slot")

    def promotion_valid(self, bracket_id, trial):
        """Is ``trial`` a legal member of the top list of the rung below the
        bracket's current rung, and not handed out yet?  Returns None or reason."""
        b = self.brackets[bracket_id]
        if b.cur == 0:
            return "bracket is at its base rung"
        prev = b.history[b.cur - 1]
        trials = [tr for tr, _ in prev]
        if trial not in trials:
            return f"trial {trial} was not in the completed rung {prev}"
        if trial in b.handed_out():
            return f"trial {trial} already resumed in this rung"
        new_len = b.rungs[b.cur][0]
        k = key_of(dict(prev)[trial], self.mode)
        better = sum(1 for _, m in prev if key_of(m, self.mode) < k)
        if better >= new_len:
            return f"{better} entries of {prev} are strictly better, next rung has {new_len} slots"
        return None

    def on_result(self, bracket_id, pos, trial, metric):
        """Returns True if this result completed the rung."""
        b = self.brackets[bracket_id]
        s = b.slots[pos]
        assert s["state"] == "pending"
        s["state"] = "done"
        s["trial"] = trial
        s["metric"] = metric
        done = all(x["state"] == "done" for x in b.slots)
        if done:
            b.history.append([(x["trial"], x["metric"]) for x in b.slots])
            b.cur += 1
            b._open_rung()
            if bracket_id == self.primary:
                last = len(self.brackets) - 1
                while self.brackets[self.primary].complete and self.primary < last:
                    self.primary += 1
                if self.brackets[self.primary].complete:
                    self.primary = self._new_bracket()
        return done

    def open_brackets(self):
        return [b.bracket_id for b in self.brackets[self.primary :] if not b.complete]
