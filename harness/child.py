"""Runs one scenario from its choice tape in a fresh process and prints the
trace as JSON (used by C11 / C16 for fresh-process twins)."""
import json
import random
import sys


def main():
    with open(sys.argv[1]) as f:
        doc = json.load(f)
    from harness import env

    env.prepare()
    import numpy as np

    from harness.tape import Tape

    mod_name, _, scen = doc["scenario"].partition(":")
    if not scen:
        mod_name, scen = "checks.c11", doc["scenario"]
    import importlib

    mod = importlib.import_module(mod_name)
    fn = mod.SCENARIOS[scen]
    np.random.seed(doc.get("global_seed", 0))
    random.seed(doc.get("global_seed", 0))
    with env.quiet():
        out = fn(Tape(log=doc["log"]))
    sys.stdout.write(json.dumps(out, default=repr, sort_keys=True))


if __name__ == "__main__":
    main()
