import argparse
import os
import sys


def main():
    ap = argparse.ArgumentParser()
    ap.add_argument("prop")
    ap.add_argument("--tier", default=os.environ.get("VERIF_TIER", "quick"))
    ap.add_argument("--replay", default=None)
    ap.add_argument("--only", default=None)
    ap.add_argument("--scale", type=float, default=1.0)
    a = ap.parse_args()
    from harness import runner

    try:
        rc = runner.main(
            a.prop,
            tier=a.tier if a.tier in ("quick", "thorough") else "quick",
            replay=a.replay,
            only=a.only.split(",") if a.only else None,
            scale=a.scale,
        )
    except SystemExit:
        raise
    except BaseException:
        import traceback

        traceback.print_exc()
        rc = 2
    sys.stdout.flush()
    sys.exit(rc)


if __name__ == "__main__":
    main()
