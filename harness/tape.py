"""The choice tape: one source for generation, shrinking and replay.

In generation mode every draw goes through a Hypothesis ``st.data()`` object
(so Hypothesis owns every random choice and can shrink the whole case as one
value) and is appended to ``self.log``.  In replay mode the log is played back
and Hypothesis is not needed.
"""
import hashlib
import json
import math


class Violation(Exception):
    """Raised by a check when the oracle rejects what the real code did.

    ``kind`` is the machine readable root-cause key (used for bucketing and for
    matching against known_findings.json); ``detail`` is free text / data.
    """

    def __init__(self, kind, detail=""):
        super().__init__(f"{kind}: {detail}")
        self.kind = kind
        self.detail = detail


class HarnessError(Exception):
    """Generator / oracle bug: never reported as a VIOLATION (exit code 2)."""


class Result:
    __slots__ = ("labels", "nontrivial", "sample")

    def __init__(self, labels=(), nontrivial=False, sample=None):
        self.labels = list(labels)
        self.nontrivial = bool(nontrivial)
        self.sample = sample


_ST = None


def _st():
    global _ST
    if _ST is None:
        from hypothesis import strategies as st

        _ST = st
    return _ST


class Tape:
    def __init__(self, data=None, log=None):
        self._data = data
        self._replay = None if log is None else list(log)
        self._pos = 0
        self.log = []
        self.notes = []
        self.overrun = False
        self.dead = False
        self.stop_exc = None
        self._cache = {}

    # -- primitive -----------------------------------------------------
    @property
    def replaying(self):
        return self._replay is not None

    def _next(self, default):
        if self._pos < len(self._replay):
            v = self._replay[self._pos]
            self._pos += 1
            return v
        self.overrun = True
        return default

    def int(self, lo, hi):
        """Integer in [lo, hi]; shrinks towards lo (towards 0 if lo<=0<=hi)."""
        lo = int(lo)
        hi = int(hi)
        if hi < lo:
            raise HarnessError(f"tape.int({lo},{hi})")
        if self._replay is not None:
            v = self._next(lo if not (lo <= 0 <= hi) else 0)
            if isinstance(v, bool) or not isinstance(v, int):
                try:
                    v = int(v)
                except Exception:
                    v = lo
            v = min(max(v, lo), hi)
        else:
            key = ("i", lo, hi)
            s = self._cache.get(key)
            if s is None:
                s = self._cache[key] = _st().integers(lo, hi)
            v = self._draw(s, lo if not (lo <= 0 <= hi) else 0)
        self.log.append(v)
        return v

    def _draw(self, strategy, default):
        """Draw from Hypothesis.  If the example has already been abandoned
        (Hypothesis raised StopTest earlier and code under test is still
        unwinding through a ``finally`` block that draws again), return a default
        so that the original StopTest keeps propagating."""
        if self.dead:
            return default
        try:
            return self._data.draw(strategy)
        except BaseException as e:
            name = type(e).__name__
            if name == "Frozen":
                self.dead = True
                return default
            if name == "StopTest":
                self.dead = True
                self.stop_exc = e
            raise

    def float(self, lo, hi):
        lo = float(lo)
        hi = float(hi)
        if self._replay is not None:
            v = self._next(lo)
            try:
                v = float(v)
            except Exception:
                v = lo
            if math.isnan(v):
                v = lo
            v = min(max(v, lo), hi)
        else:
            key = ("f", lo, hi)
            s = self._cache.get(key)
            if s is None:
                s = self._cache[key] = _st().floats(
                    lo, hi, allow_nan=False, allow_infinity=False
                )
            v = self._draw(s, lo)
        self.log.append(v)
        return v

    # -- derived -------------------------------------------------------
    def bool(self):
        return self.int(0, 1) == 1

    def chance(self, num, den):
        """True with probability num/den (shrinks to False)."""
        return self.int(0, den - 1) >= den - num

    def choice(self, seq):
        seq = list(seq)
        if not seq:
            raise HarnessError("tape.choice(empty)")
        return seq[self.int(0, len(seq) - 1)]

    def index(self, n):
        return self.int(0, n - 1)

    def weighted(self, pairs):
        """pairs: list of (weight:int, value); first entries are 'simplest'."""
        tot = sum(w for w, _ in pairs)
        r = self.int(0, tot - 1)
        for w, v in pairs:
            if r < w:
                return v
            r -= w
        return pairs[-1][1]

    def subset(self, seq, min_size=0):
        seq = list(seq)
        out = [x for x in seq if self.bool()]
        while len(out) < min_size and len(out) < len(seq):
            for x in seq:
                if x not in out:
                    out.append(x)
                    break
        return out

    def permutation(self, seq):
        seq = list(seq)
        out = []
        while seq:
            out.append(seq.pop(self.int(0, len(seq) - 1)))
        return out

    def note(self, x):
        self.notes.append(x)

    def fingerprint(self):
        return hashlib.sha1(
            json.dumps(self.log, separators=(",", ":")).encode()
        ).hexdigest()[:16]
