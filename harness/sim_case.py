"""Generation of one simulated tuning run (driver B1) and the reference
re-computation of what the table says each run of each trial must report and
when (``ref_sim``, DESIGN.md C10).  Shared by C01, C02, C10, C12, C17."""
from harness import driver_sim, gen_sched, gen_tables
from harness.tape import HarnessError, Result, Violation


class Ctx:
    pass


def gen_case(t, families=None, criterion="any", extra_metric=True, cost=True, flags=True, backend_seed_modes=("fixed",), ties=None, max_fid=8):
    ctx = Ctx()
    tb = gen_tables.gen_table(t, max_fid=max_fid, extra_metric=extra_metric, cost=cost, ties=ties)
    ctx.table = tb
    ctx.use_mra = t.bool()
    ctx.n_workers = t.int(1, 4)
    # the scheduler's configuration space need not list the hyper-parameters in the order of the table's columns
    cs_sched = dict(reversed(list(tb.config_space.items()))) if t.bool() else tb.config_space
    ctx.spec = gen_sched.gen_sched(
        t,
        cs_sched,
        max_t=tb.num_fidelities,
        max_resource_attr="epochs" if ctx.use_mra else None,
        second_metric="acc" if extra_metric else None,
        cost_attr="cost" if cost else None,
        n_workers=ctx.n_workers,
        families=families,
    )
    if criterion == "simple":
        ctx.crit, ctx.crit_fields = driver_sim.gen_stop_criterion(t, simple=True)
    else:
        ctx.crit, ctx.crit_fields = driver_sim.gen_stop_criterion(t)
    ctx.checkpointing = not t.chance(1, 3)
    mode = t.choice(list(backend_seed_modes))
    if mode == "fixed" or tb.num_seeds == 1:
        ctx.backend_seed = t.int(0, tb.num_seeds - 1)
    else:
        ctx.backend_seed = None
    ctx.flags = {}
    if flags:
        if t.chance(1, 4):
            ctx.flags["asynchronous_scheduling"] = False
        if t.chance(1, 4):
            ctx.flags["wait_trial_completion_when_stopping"] = True
        if t.chance(1, 4):
            ctx.flags["start_jobs_without_delay"] = False
    return ctx


def run_case(t, ctx, extra_callbacks=(), **kw):
    run = driver_sim.run_simulation(
        t,
        ctx.table,
        ctx.spec,
        n_workers=ctx.n_workers,
        stop_criterion=ctx.crit,
        support_checkpointing=ctx.checkpointing,
        backend_seed=ctx.backend_seed,
        use_mra=ctx.use_mra,
        tuner_flags=ctx.flags,
        extra_callbacks=extra_callbacks,
        **kw,
    )
    ctx.run = run
    return run


def describe(ctx):
    return {
        "table": ctx.table.describe(),
        "scheduler": ctx.spec.describe(),
        "n_workers": ctx.n_workers,
        "stop_criterion": ctx.crit_fields,
        "checkpointing": ctx.checkpointing,
        "max_resource_attr": ctx.use_mra,
        "backend_seed": ctx.backend_seed,
        "flags": ctx.flags,
        "sim_config": getattr(ctx.run, "sim_config", None),
        "tuner_sleep_time": getattr(ctx.run, "tuner_sleep_time", None),
    }


def brief_events(run, n=60):
    out = []
    for e in run.events:
        k = e["kind"]
        if k in ("be.start", "be.resume", "be.pause", "be.stop"):
            out.append([k, e.get("trial_id"), e.get("t_ret")])
        elif k == "sched.result":
            out.append([k, e["trial_id"], e["result"].get("epoch"), e["decision"]])
        elif k == "fetch" and e["results"]:
            out.append([k, [(tid, r.get("epoch")) for tid, r in e["results"]], {a: b for a, b in e["status"].items()}])
        elif k in ("sched.remove", "sched.complete", "sched.error", "sched.add"):
            out.append([k, e["trial_id"]])
        if len(out) >= n:
            break
    return out


# ----------------------------------------------------------------------------
class RunInfo:
    """One run (start or resume) of a trial, with what it must emit."""

    def __init__(self):
        self.trial_id = None
        self.index = 0
        self.event = None
        self.config = None
        self.t_start = None
        self.resumed_from = None  # level the trial was paused at (None for the first run)
        self.expected = []  # list of dict(level, time, values)
        self.delivered = []
        self.decision_end = None


def analyse(ctx, strict_seed=True):
    """Splits the history into runs and recomputes from the table what each run
    reports (levels, metric values, simulated time stamps)."""
    run = ctx.run
    tb = ctx.table
    cfg = run.sim_config
    if cfg is None:
        raise HarnessError("sim_config unknown")
    runs = {}  # trial -> list of RunInfo
    paused_at = {}
    hp_names = list(tb.config_space)
    for e in run.events:
        k = e["kind"]
        if k == "be.pause":
            res = e.get("result")
            if res is not None and tb.resource_attr in res:
                paused_at[e["trial_id"]] = int(res[tb.resource_attr])
        if k not in ("be.start", "be.resume"):
            continue
        tid = e["trial_id"]
        if tid is None:
            continue
        ri = RunInfo()
        ri.trial_id = tid
        ri.event = e
        lst = runs.setdefault(tid, [])
        ri.index = len(lst)
        if k == "be.start":
            ri.config = dict(e["config"])
        else:
            prev = lst[-1].config if lst else {}
            ri.config = dict(e["new_config"]) if e.get("new_config") is not None else dict(prev)
            ri.resumed_from = paused_at.get(tid)
        ri.t_start = e.get("t_ret")
        lst.append(ri)
        hp = {n: ri.config[n] for n in hp_names if n in ri.config}
        ci = tb.index_of(hp) if len(hp) == len(hp_names) else None
        ri.config_index = ci
        if ci is None:
            ri.expected = None
            continue
        max_level = tb.num_fidelities
        if ctx.use_mra and "epochs" in ri.config:
            max_level = min(max_level, int(ri.config["epochs"]))
        first = 1
        offset_level = None
        if ri.resumed_from is not None and ctx.checkpointing:
            first = ri.resumed_from + 1
            offset_level = ri.resumed_from
        ri.first_level = first
        ri.max_level = max_level
        ri.offset_level = offset_level
    return runs


def expected_for_seed(ctx, ri, seed):
    """Expected reports of a run for a given table seed: list of dict(level,
    time, values{objective: value})."""
    tb = ctx.table
    cfg = ctx.run.sim_config
    ci = ri.config_index
    ti = tb.objectives.index(tb.time_attr)
    offset = 0.0
    if ri.offset_level is not None:
        offset = float(tb.data[ci, seed, ri.offset_level - 1, ti])
    out = []
    prev = None
    for level in range(ri.first_level, ri.max_level + 1):
        raw = float(tb.data[ci, seed, level - 1, ti]) - offset
        if prev is None:
            rep = max(raw, 0.01)
        else:
            rep = max(raw, prev + 0.01)
        prev = rep
        values = {n: float(tb.data[ci, seed, level - 1, oi]) for oi, n in enumerate(tb.objectives) if n != tb.time_attr}
        tstamp = ri.t_start + cfg["delay_start"] + rep + cfg["delay_on_trial_result"]
        out.append({"level": level, "time": tstamp, "values": values, "elapsed": rep})
    return out
