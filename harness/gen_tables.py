"""Generated tabular benchmarks (BlackboxTabular) — DESIGN.md section 4."""
import itertools

import numpy as np

from harness.tape import HarnessError


class Table:
    """A generated benchmark: finite config space, full grid, objectives."""

    def __init__(self):
        self.config_space = None  # dict name -> Domain
        self.hp_values = None  # dict name -> list of values
        self.configs = None  # list of dicts (grid)
        self.num_seeds = 1
        self.num_fidelities = 0
        self.objectives = None  # names
        self.data = None  # ndarray [config, seed, fidelity, objective]
        self.metric = "loss"
        self.time_attr = "time"
        self.resource_attr = "epoch"
        self.blackbox = None
        self.labels = []

    def index_of(self, config):
        for i, c in enumerate(self.configs):
            if all(c[k] == config[k] for k in c):
                return i
        return None

    def value(self, config, seed, level, name):
        i = self.index_of(config)
        if i is None:
            return None
        return float(self.data[i, seed, level - 1, self.objectives.index(name)])

    def describe(self):
        return {
            "hp_values": self.hp_values,
            "num_seeds": self.num_seeds,
            "num_fidelities": self.num_fidelities,
            "objectives": self.objectives,
            "labels": self.labels,
        }


class _PrngTape:
    """Same drawing interface as the tape, values from a generator seeded by one tape draw."""

    def __init__(self, seed):
        self.rs = np.random.RandomState(seed)

    def int(self, lo, hi):
        return int(self.rs.randint(lo, hi + 1))

    def weighted(self, pairs):
        tot = sum(w for w, _ in pairs)
        r = int(self.rs.randint(0, tot))
        for w, v in pairs:
            if r < w:
                return v
            r -= w
        return pairs[-1][1]


def gen_table(t, min_fid=2, max_fid=12, extra_metric=False, cost=False, ties=None, max_configs=24):
    import pandas as pd

    import syne_tune.config_space as cs
    from syne_tune.blackbox_repository.blackbox_tabular import BlackboxTabular

    tb = Table()
    n_hp = t.weighted([(3, 2), (1, 3)])
    names = ["lr", "width", "act"][:n_hp]
    space = {}
    values = {}
    for nm in names:
        kind = t.weighted([(2, "randint"), (2, "choice"), (1, "finrange"), (1, "ordinal")])
        k = t.int(1, 4)
        if kind == "randint":
            lo = t.int(0, 3)
            space[nm] = cs.randint(lo, lo + k - 1)
            values[nm] = list(range(lo, lo + k))
        elif kind == "choice":
            vals = ["a", "b", "c", "d"][:k]
            space[nm] = cs.choice(vals)
            values[nm] = vals
        elif kind == "finrange":
            k = max(k, 2)
            space[nm] = cs.finrange(0.25, 0.25 * k, k)
            values[nm] = list(space[nm].values)
        else:
            vals = [1, 2, 4, 8][:k]
            space[nm] = cs.ordinal(vals, kind="equal")
            values[nm] = vals
    if all(len(v) == 1 for v in values.values()):
        # at least two configurations (some searchers refuse a space of size 1)
        nm = names[0]
        space[nm] = cs.randint(0, 1)
        values[nm] = [0, 1]
    grid = [dict(zip(names, combo)) for combo in itertools.product(*[values[n] for n in names])]
    while len(grid) > max_configs:
        # keep the grid a full product: drop the last value of the largest dimension
        big = max(names, key=lambda n: len(values[n]))
        values[big] = values[big][:-1]
        v = values[big]
        d = space[big]
        if isinstance(d, cs.Integer):
            space[big] = cs.randint(v[0], v[-1])
        elif isinstance(d, cs.FiniteRange):
            space[big] = cs.finrange(v[0], v[-1], len(v)) if len(v) > 1 else cs.finrange(v[0], v[0], 1)
        elif isinstance(d, cs.Ordinal):
            space[big] = cs.ordinal(v, kind="equal")
        else:
            space[big] = cs.choice(v)
        grid = [dict(zip(names, combo)) for combo in itertools.product(*[values[n] for n in names])]
    tb.config_space = space
    tb.hp_values = values
    tb.configs = grid
    tb.num_seeds = t.weighted([(3, 1), (1, 2), (1, 3)])
    F = t.int(min_fid, max_fid)
    tb.num_fidelities = F
    objs = ["loss"]
    if extra_metric:
        objs.append("acc")
    objs.append("time")
    if cost:
        objs.append("cost")
    tb.objectives = objs
    if ties is None:
        ties = t.chance(1, 4)
    time_kind = t.weighted([(4, "monotone"), (2, "noisy"), (1, "tiny"), (1, "huge")])
    tb.labels = [f"time-{time_kind}", "ties" if ties else "general-position", f"seeds-{tb.num_seeds}"]
    outer = t
    data = np.zeros((len(grid), tb.num_seeds, F, len(objs)))
    counter = 0
    cells = len(grid) * tb.num_seeds * F * len(objs)
    if cells > 160:
        # too many cells to draw one by one (Hypothesis' buffer): the cells are a
        # pure function of one tape value (a seeded generator); still replayable,
        # shrinks as a whole
        t = _PrngTape(t.int(0, 2**31 - 2))
        tb_fill = "prng"
    else:
        tb_fill = "tape"
    for ci in range(len(grid)):
        for si in range(tb.num_seeds):
            cum = 0.0
            for f in range(F):
                for oi, on in enumerate(objs):
                    if on in ("loss", "acc"):
                        if ties:
                            v = float(t.int(0, 3))
                        else:
                            counter += 1
                            v = (t.int(0, 999) * 4096 + counter) / 4096000.0
                    elif on == "time":
                        if time_kind == "monotone":
                            cum += t.weighted([(3, 1.0), (1, 0.5), (1, 3.0), (1, 0.25)])
                            v = cum
                        elif time_kind == "noisy":
                            cum += t.weighted([(3, 1.0), (1, -0.5), (1, 0.0), (1, 2.0)])
                            v = cum
                        elif time_kind == "tiny":
                            cum += t.weighted([(2, 0.001), (1, 0.0), (1, 0.01)])
                            v = cum
                        else:
                            cum += t.weighted([(2, 100.0), (1, 1000.0)])
                            v = cum
                    else:
                        v = float(t.int(1, 5))
                    data[ci, si, f, oi] = v
    tb.data = data
    tb.labels.append(f"fill-{tb_fill}")
    df = pd.DataFrame({n: [c[n] for c in grid] for n in names})
    tb.blackbox = BlackboxTabular(
        hyperparameters=df,
        configuration_space=space,
        fidelity_space={"epoch": cs.randint(1, F)},
        objectives_evaluations=data,
        objectives_names=objs,
    )
    return tb
