"""Reference model of stopping-type asynchronous Hyperband, written from the
doc-strings of HyperbandScheduler / StoppingRungSystem / RUSHScheduler.
No syne_tune import."""
import math

import numpy as np


def ref_rung_levels(rung_levels, grace_period, reduction_factor, rung_increment, max_t):
    """Rung levels r_j, all < max_t (a final level == max_t is stripped)."""
    if rung_levels is not None:
        levels = [int(x) for x in rung_levels]
    elif reduction_factor is not None:
        levels = []
        k = 0
        while grace_period * reduction_factor**k < max_t:
            levels.append(int(round(grace_period * reduction_factor**k)))
            k += 1
    else:
        levels = list(range(grace_period, max_t, rung_increment))
    if levels and levels[-1] == max_t:
        levels = levels[:-1]
    return levels


def promote_quantiles(levels, max_t):
    nxt = levels[1:] + [max_t]
    return [a / b for a, b in zip(levels, nxt)]


def tie(a, b, scale=0.0, ulps=4):
    """Equality up to floating-point round-off; ``scale`` is the magnitude of
    the data the interpolated quantile was computed from (numpy.quantile's
    interpolation error is relative to the data, not to the result)."""
    return abs(a - b) <= ulps * np.spacing(max(abs(a), abs(b), abs(scale), 1e-300))


class RefStopping:
    def __init__(self, levels, max_t, mode, brackets, per_bracket, rush_candidates=0):
        self.levels = list(levels)
        self.max_t = max_t
        self.mode = mode
        self.num_brackets = min(brackets, len(levels) + 1)
        self.per_bracket = per_bracket
        self.q = dict(zip(levels, promote_quantiles(levels, max_t)))
        nsys = self.num_brackets if per_bracket else 1
        # system s holds the rungs levels[s:]
        self.systems = [{lv: [] for lv in levels[s:]} for s in range(nsys)]
        self.rush_n = rush_candidates
        self.rush_thresholds = [dict() for _ in range(nsys)]

    def rungs_of(self, bracket):
        """(system index, list of rung levels the trial of this bracket competes at)"""
        if self.per_bracket:
            return bracket, self.levels[bracket:]
        return 0, self.levels[bracket:]

    def on_report(self, trial_id, bracket, level, metric):
        """Returns (set of acceptable decisions, info dict)."""
        info = {"rung": None, "n": 0}
        if level >= self.max_t:
            return {"STOP"}, info
        sys_id, my_levels = self.rungs_of(bracket)
        if level not in my_levels:
            return {"CONTINUE"}, info
        rung = self.systems[sys_id][level]
        if any(tid == trial_id for tid, _ in rung):
            return {"CONTINUE"}, info  # each trial enters a rung at most once
        rung.append((trial_id, metric))
        vals = [m for _, m in rung]
        info["rung"] = level
        info["n"] = len(vals)
        if len(vals) < 2:
            ok = {"CONTINUE"}
            cont_base = True
            either = False
        else:
            q = self.q[level]
            if self.mode == "min":
                cutoff = float(np.quantile(np.array(vals, dtype=float), q))
                cont_base = metric <= cutoff
            else:
                cutoff = float(np.quantile(np.array(vals, dtype=float), 1 - q))
                cont_base = metric >= cutoff
            info["cutoff"] = cutoff
            either = bool(tie(metric, cutoff, scale=max(abs(v) for v in vals)))
            ok = {"CONTINUE", "STOP"} if either else ({"CONTINUE"} if cont_base else {"STOP"})
        info["tie"] = either
        if self.rush_n > 0:
            # RUSH: on top of the base rule; threshold candidates (the first
            # rush_n trials) set per-level thresholds, others must meet them
            thr = self.rush_thresholds[sys_id]
            out = set()
            for base in ok:
                if base == "STOP":
                    out.add("STOP")
                    continue
                if int(trial_id) < self.rush_n:
                    out.add("CONTINUE")
                else:
                    th = thr.get(level)
                    if th is None:
                        out.add("CONTINUE")
                    elif self.mode == "min":
                        out.add("CONTINUE" if metric <= th else "STOP")
                    else:
                        out.add("CONTINUE" if metric >= th else "STOP")
            # threshold update happens only if the base rule lets it continue
            # (callers avoid ties under RUSH, so cont_base is unambiguous)
            if int(trial_id) < self.rush_n and cont_base:
                old = thr.get(level)
                if old is None:
                    thr[level] = metric
                else:
                    thr[level] = min(old, metric) if self.mode == "min" else max(old, metric)
            ok = out
        return ok, info

    def rung_contents(self, bracket):
        sys_id, my_levels = self.rungs_of(bracket)
        return {lv: sorted(self.systems[sys_id][lv]) for lv in my_levels}
