"""Dense textbook re-implementation of the GP quantities (numpy float64) and of
the kernels (Matern-5/2 with inverse bandwidths and covariance scale,
Kumaraswamy warping, product kernels).  No syne_tune import."""
import math

import numpy as np

JITTER = 1e-9  # NUMERICAL_JITTER of the library (only used in tolerances and in the warping's rescale)


def matern52(X1, X2, inv_bw, cov_scale):
    """inv_bw: scalar or vector of per-dimension inverse bandwidths."""
    ib = np.asarray(inv_bw, dtype=float).reshape(1, -1)
    A = X1 * ib
    B = X2 * ib
    diff = A[:, None, :] - B[None, :, :]
    r2 = np.sum(diff * diff, axis=2)
    D = 5.0 * r2
    S = np.sqrt(D)
    return cov_scale * (1.0 + S + D / 3.0) * np.exp(-S)


def warp(X, ranges):
    """ranges: list of (lower, upper, power_a vector, power_b vector)."""
    out = np.array(X, dtype=float, copy=True)
    for lo, up, a, b in ranges:
        part = X[:, lo:up] * (1.0 - 2 * JITTER) + JITTER
        out[:, lo:up] = 1.0 - np.power(1.0 - np.power(part, np.reshape(a, (1, -1))), np.reshape(b, (1, -1)))
    return out


class RefKernel:
    def __init__(self, kind, **kw):
        self.kind = kind
        self.kw = kw

    def __call__(self, X1, X2):
        k = self.kind
        if k == "matern":
            return matern52(X1, X2, self.kw["inv_bw"], self.kw["cov_scale"])
        if k == "warped":
            w = self.kw["ranges"]
            return self.kw["inner"](warp(X1, w), warp(X2, w))
        if k == "product":
            d1 = self.kw["d1"]
            return self.kw["k1"](X1[:, :d1], X2[:, :d1]) * self.kw["k2"](X1[:, d1:], X2[:, d1:])
        raise ValueError(k)

    def diag(self, X):
        return np.diag(self(X, X))


def dense_posterior(K, Ks, kss_diag, Kss, mean_tr, mean_te, Y, noise_diag):
    """Textbook formulas.  K (n,n), Ks (n,n*), Y (n,m), noise_diag (n,)."""
    A = K + np.diag(noise_diag)
    R = Y - mean_tr.reshape(-1, 1)
    sol = np.linalg.solve(A, R)
    means = mean_te.reshape(-1, 1) + Ks.T @ sol
    AinvKs = np.linalg.solve(A, Ks)
    var = kss_diag - np.sum(Ks * AinvKs, axis=0)
    cov = None if Kss is None else Kss - Ks.T @ AinvKs
    sign, logdet = np.linalg.slogdet(A)
    n = K.shape[0]
    nlml = None
    if Y.shape[1] == 1:
        nlml = 0.5 * (float(R[:, 0] @ sol[:, 0]) + logdet + n * math.log(2 * math.pi))
    return means, var, cov, nlml, float(np.linalg.cond(A))
