"""Environment preparation shared by all checks.

Must be imported (and :func:`prepare` called) before anything from syne_tune.
"""
import logging
import os
import sys
import warnings

_PREPARED = False
REPO = os.environ.get("VERIF_REPO", "/repo")


def prepare():
    global _PREPARED
    if _PREPARED:
        return
    _PREPARED = True
    warnings.filterwarnings("ignore")
    os.environ.setdefault("PYTHONHASHSEED", "0")
    # make sure the working tree of the repository is what gets imported
    if REPO not in sys.path:
        sys.path.insert(0, REPO)
    import numpy

    # import shims (DESIGN.md section 3): two optional third-party imports that
    # die with non-ImportError exceptions in this image, and one removed numpy
    # alias used as a *default argument* in a plotting helper.  numpy.NAN is
    # deliberately not defined.
    sys.modules.setdefault("yahpo_gym", None)
    sys.modules.setdefault("ConfigSpace", None)
    if not hasattr(numpy, "NaN"):
        numpy.NaN = numpy.nan
    logging.disable(logging.CRITICAL)
    _stdout, _stderr = sys.stdout, sys.stderr
    devnull = open(os.devnull, "w")
    try:
        sys.stdout = devnull
        sys.stderr = devnull
        import syne_tune  # noqa
    finally:
        sys.stdout, sys.stderr = _stdout, _stderr
    got = os.path.realpath(os.path.dirname(syne_tune.__file__))
    want = os.path.realpath(os.path.join(REPO, "syne_tune"))
    if got != want:
        raise RuntimeError(f"syne_tune imported from {got}, expected {want}")


class quiet:
    """Context manager silencing prints of the library (it prints a lot)."""

    def __enter__(self):
        self._o, self._e = sys.stdout, sys.stderr
        self._f = open(os.devnull, "w")
        sys.stdout = self._f
        sys.stderr = self._f
        return self

    def __exit__(self, *a):
        sys.stdout, sys.stderr = self._o, self._e
        self._f.close()
        return False


def reset_global_rngs(seed=0):
    import random

    import numpy

    random.seed(seed)
    numpy.random.seed(seed)
