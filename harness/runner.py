"""Runner: shards a check over processes, drives it with Hypothesis, handles
violations / known findings / replays / evidence / exit codes.

Exit codes: 0 held on everything explored, 1 violation (VIOLATION line),
2 harness error or inconclusive (never prints VIOLATION).
"""
import collections
import importlib
import json
import multiprocessing
import os
import re
import subprocess
import sys
import time
import traceback

from harness import env
from harness.tape import HarnessError, Result, Tape, Violation

VERIF = os.path.dirname(os.path.dirname(os.path.abspath(__file__)))
KNOWN_FILE = os.path.join(VERIF, "known_findings.json")
# development only: write replays / evidence elsewhere (e.g. while trying a seeded change from a scratch worktree via VERIF_REPO)
OUT = os.environ.get("VERIF_OUT", VERIF)
SHRINK_GUARD = {"quick": 45.0, "thorough": 200.0}
GLOBAL_GUARD = {"quick": 30 * 60.0, "thorough": 5 * 3600.0}
MAX_KINDS_PER_SHARD = 4


# ----------------------------------------------------------------------------
def load_known(prop):
    """Returns (findings: {key: desc}, fixed: [entries]) for one property."""
    if not os.path.exists(KNOWN_FILE):
        return {}, []
    with open(KNOWN_FILE) as f:
        doc = json.load(f)
    findings, fixed = {}, []
    for e in doc.get("entries", []):
        if e.get("property") != prop:
            continue
        if e.get("status") == "finding":
            findings[e["key"]] = e.get("what", "")
        elif e.get("status") == "fixed":
            fixed.append(e)
    return findings, fixed


def known_match(kind, findings):
    """A violation kind matches a listed finding if it is equal to its key."""
    return kind if kind in findings else None


def classify_exception(e):
    """Exception that escaped run_case: library crash (-> Violation kind) or
    harness error (-> None)."""
    tb = e.__traceback__
    repo_root = os.path.realpath(os.path.join(env.REPO, "syne_tune")) + os.sep
    inner = None
    while tb is not None:
        fn = os.path.realpath(tb.tb_frame.f_code.co_filename)
        if fn.startswith(repo_root):
            inner = (os.path.basename(fn), tb.tb_frame.f_code.co_name)
        tb = tb.tb_next
    if inner is None:
        return None
    return f"crash:{type(e).__name__}:{inner[0]}:{inner[1]}"


def get_module(prop):
    return importlib.import_module(f"checks.{prop.lower()}")


def repo_head():
    try:
        return subprocess.run(
            ["git", "-C", env.REPO, "rev-parse", "HEAD"],
            capture_output=True,
            text=True,
        ).stdout.strip()
    except Exception:
        return "unknown"


# ----------------------------------------------------------------------------
class ShardState:
    def __init__(self, findings):
        self.findings = findings
        self.evaluations = 0
        self.nontrivial = set()
        self.labels = collections.Counter()
        self.samples = []
        self.trivial_samples = []
        self.known_hits = collections.Counter()
        self.reported = {}  # kind -> dict(message, log)
        self.skip_kinds = set()
        self.last_failure = None
        self.first_failure_time = None
        self.harness_error = None


def run_one_case(fn, tape, state, counting=True):
    """Runs one case; returns None or raises Violation (not listed)."""
    env.reset_global_rngs(0)
    try:
        res = fn(tape)
    except Violation as v:
        raise
    except HarnessError:
        raise
    except Exception as e:
        import hypothesis.errors as he

        if getattr(tape, "stop_exc", None) is not None:
            # Hypothesis abandoned this example (StopTest) while code under test was
            # running; whatever was raised while unwinding is not a finding
            raise tape.stop_exc
        if isinstance(e, he.HypothesisException):
            raise
        kind = classify_exception(e)
        if kind is None:
            raise HarnessError(
                "".join(traceback.format_exception(type(e), e, e.__traceback__))[-3000:]
            )
        tbtxt = "".join(traceback.format_exception(type(e), e, e.__traceback__))
        raise Violation(kind, tbtxt[-1500:])
    if res is None:
        res = Result()
    return res


def _shard(args):
    (prop, sub, tier, seed_value, shard_idx, n_examples, max_samples) = args
    os.environ["VERIF_SHARD"] = str(shard_idx)
    env.prepare()
    from hypothesis import HealthCheck, Phase, Verbosity, given, seed, settings
    from hypothesis import strategies as st
    import hypothesis.errors as he

    mod = get_module(prop)
    spec = mod.SUBCHECKS[sub]
    fn = spec["fn"]
    findings, _ = load_known(prop)
    state = ShardState(findings)
    guard = SHRINK_GUARD[tier]
    t0 = time.time()

    def body(data):
        tape = Tape(data=data)
        if (
            state.first_failure_time is not None
            and time.time() - state.first_failure_time > guard
        ):
            return  # stop minimising: every further attempt "passes"
        try:
            with env.quiet():
                res = run_one_case(fn, tape, state)
        except Violation as v:
            if known_match(v.kind, state.findings):
                state.known_hits[v.kind] += 1
                state.evaluations += 1
                return
            if v.kind in state.skip_kinds:
                state.evaluations += 1
                state.labels["excluded-already-reported"] += 1
                return
            state.last_failure = (v.kind, str(v.detail), list(tape.log))
            if state.first_failure_time is None:
                state.first_failure_time = time.time()
            raise
        if state.first_failure_time is not None:
            return  # shrinking: do not count
        state.evaluations += 1
        for lab in res.labels:
            state.labels[lab] += 1
        if res.nontrivial:
            state.nontrivial.add(tape.fingerprint())
            if len(state.samples) < max_samples and res.sample is not None:
                state.samples.append(res.sample)
        elif len(state.trivial_samples) < 1 and res.sample is not None:
            state.trivial_samples.append(res.sample)

    if "enumerate" in spec:
        # finite sub-space enumerated completely: logs are produced by the
        # check itself, this shard takes every n_shards-th one
        n_shards = spec.get("enum_shards", 16)
        for i, log in enumerate(spec["enumerate"](tier)):
            if i % n_shards != shard_idx:
                continue
            tape = Tape(log=log)
            try:
                with env.quiet():
                    res = run_one_case(fn, tape, state)
            except Violation as v:
                state.evaluations += 1
                if known_match(v.kind, state.findings):
                    state.known_hits[v.kind] += 1
                elif v.kind not in state.reported:
                    state.reported[v.kind] = {"message": str(v.detail), "log": list(log)}
                continue
            except HarnessError as e:
                state.harness_error = str(e)
                break
            state.evaluations += 1
            for lab in res.labels:
                state.labels[lab] += 1
            if res.nontrivial:
                state.nontrivial.add(tape.fingerprint())
                if len(state.samples) < max_samples and res.sample is not None:
                    state.samples.append(res.sample)
        n_examples = 0
    remaining = n_examples
    round_no = 0
    while remaining > 0 and round_no <= MAX_KINDS_PER_SHARD:
        hseed = (seed_value * 1000003 + shard_idx) * 17 + round_no
        state.last_failure = None
        state.first_failure_time = None
        before = state.evaluations

        @seed(hseed)
        @settings(
            max_examples=remaining,
            database=None,
            deadline=None,
            report_multiple_bugs=False,
            derandomize=False,
            suppress_health_check=list(HealthCheck),
            phases=[Phase.generate, Phase.shrink],
            verbosity=Verbosity.quiet,
        )
        @given(st.data())
        def test(data):
            body(data)

        try:
            test()
            break
        except HarnessError as e:
            state.harness_error = str(e)
            break
        except BaseException as e:  # Violation, Flaky, ...
            if isinstance(e, (KeyboardInterrupt, SystemExit)):
                raise
            if state.last_failure is None:
                state.harness_error = "".join(
                    traceback.format_exception(type(e), e, e.__traceback__)
                )[-3000:]
                break
            kind, msg, log = state.last_failure
            state.reported[kind] = {"message": msg, "log": log}
            state.skip_kinds.add(kind)
            remaining -= max(1, state.evaluations - before)
            round_no += 1
    return {
        "sub": sub,
        "shard": shard_idx,
        "evaluations": state.evaluations,
        "nontrivial": state.nontrivial,
        "labels": dict(state.labels),
        "samples": state.samples or state.trivial_samples,
        "known_hits": dict(state.known_hits),
        "reported": state.reported,
        "harness_error": state.harness_error,
        "wall": time.time() - t0,
    }


# ----------------------------------------------------------------------------
def _san(s):
    return re.sub(r"[^A-Za-z0-9_.-]+", "_", s)[:80]


def replay_file(path):
    """Replays one saved tape.  Returns (kind or None, message)."""
    env.prepare()
    with open(path) as f:
        doc = json.load(f)
    mod = get_module(doc["property"])
    fn = mod.SUBCHECKS[doc["subcheck"]]["fn"]
    tape = Tape(log=doc["log"])
    try:
        with env.quiet():
            run_one_case(fn, tape, None)
    except Violation as v:
        return v.kind, str(v.detail)
    return None, ""


def run_corpus(prop, findings):
    """Replays the committed regression tapes (corpus/<id>/*.json).  Returns a
    list of (kind, message, log, subcheck) that fail now."""
    out = []
    d = os.path.join(VERIF, "corpus", prop)
    n = 0
    if os.path.isdir(d):
        for name in sorted(os.listdir(d)):
            if not name.endswith(".json"):
                continue
            n += 1
            p = os.path.join(d, name)
            with open(p) as f:
                doc = json.load(f)
            kind, msg = replay_file(p)
            if kind is not None and not known_match(kind, findings):
                out.append((kind, msg, doc["log"], doc["subcheck"], name))
    return n, out


def main(prop, tier="quick", replay=None, only=None, scale=1.0):
    t0 = time.time()
    seed_value = int(os.environ.get("VERIF_SEED", "1") or "1")
    prop = prop.upper()
    if replay:
        kind, msg = replay_file(replay)
        if kind is None:
            print(f"replay {replay}: property held")
            return 0
        findings, _ = load_known(prop)
        if known_match(kind, findings):
            print(f"KNOWN-FINDING: property={prop} {kind} {findings[kind]}")
            return 0
        print(f"replay {replay}: {kind}: {msg}")
        print(f"VIOLATION property={prop} replay={replay}")
        return 1

    env.prepare()
    mod = get_module(prop)
    findings, fixed = load_known(prop)
    ncpu = min(16, os.cpu_count() or 1)
    tasks = []
    for sub, spec in mod.SUBCHECKS.items():
        if only and sub not in only:
            continue
        if "enumerate" in spec:
            if not spec.get(tier, 1):
                continue
            for i in range(spec.get("enum_shards", 16)):
                tasks.append((prop, sub, tier, seed_value, i, 0, 3))
            continue
        n = int(spec[tier] * scale)
        if n <= 0:
            continue
        per = spec.get("min_per_shard", 40)
        shards = max(1, min(ncpu, n // per))
        for i in range(shards):
            cnt = n // shards + (1 if i < n % shards else 0)
            tasks.append((prop, sub, tier, seed_value, i, cnt, 3))
    violations = {}  # kind -> (message, log, sub)
    harness_errors = []
    # 1. regression corpus
    n_corpus, corpus_fail = run_corpus(prop, findings)
    for kind, msg, log, sub, name in corpus_fail:
        violations.setdefault(kind, (msg, log, sub))
    # 2. generated search
    ctx = multiprocessing.get_context("fork")
    results = []
    with ctx.Pool(min(ncpu, max(1, len(tasks)))) as pool:
        it = pool.imap_unordered(_shard, tasks)
        deadline = t0 + GLOBAL_GUARD[tier]
        try:
            for _ in range(len(tasks)):
                results.append(it.next(timeout=max(1.0, deadline - time.time())))
        except multiprocessing.TimeoutError:
            pool.terminate()
            harness_errors.append("global time guard hit: inconclusive")
    per_sub = {}
    evaluations = 0
    nontrivial = set()
    labels = collections.Counter()
    samples = []
    known_hits = collections.Counter()
    for r in results:
        s = per_sub.setdefault(
            r["sub"], {"evaluations": 0, "distinct_nontrivial": set(), "labels": collections.Counter()}
        )
        s["evaluations"] += r["evaluations"]
        s["distinct_nontrivial"] |= r["nontrivial"]
        s["labels"].update(r["labels"])
        evaluations += r["evaluations"]
        nontrivial |= {r["sub"] + ":" + x for x in r["nontrivial"]}
        labels.update({f'{r["sub"]}/{k}': v for k, v in r["labels"].items()})
        known_hits.update(r["known_hits"])
        for smp in r["samples"]:
            if len([x for x in samples if x.get("subcheck") == r["sub"]]) < 3:
                samples.append({"subcheck": r["sub"], "case": smp})
        if r["harness_error"]:
            harness_errors.append(f'{r["sub"]}[{r["shard"]}]: {r["harness_error"]}')
        for kind, d in r["reported"].items():
            old = violations.get(kind)
            if old is None or len(d["log"]) < len(old[1]):
                violations[kind] = (d["message"], d["log"], r["sub"])
    # required label classes
    missing = []
    for sub, spec in mod.SUBCHECKS.items():
        if sub not in per_sub:
            continue
        for lab in spec.get("required", []):
            if per_sub[sub]["labels"].get(lab, 0) == 0:
                missing.append(f"{sub}/{lab}")
    # write replays
    head = repo_head()
    replay_paths = []
    for kind, (msg, log, sub) in sorted(violations.items()):
        d = os.path.join(OUT, "replays", prop)
        os.makedirs(d, exist_ok=True)
        import hashlib

        sha = hashlib.sha1(json.dumps(log).encode()).hexdigest()[:8]
        path = os.path.join(d, f"{_san(kind)}-{sha}.json")
        doc = {
            "property": prop,
            "subcheck": sub,
            "kind": kind,
            "message": msg[-4000:],
            "log": log,
            "repo_head": head,
            "seed": seed_value,
            "tier": tier,
        }
        with open(path, "w") as f:
            json.dump(doc, f, indent=1)
        rk, _ = replay_file(path)
        doc["reproduced_in_fresh_replay"] = rk == kind
        with open(path, "w") as f:
            json.dump(doc, f, indent=1)
        replay_paths.append((kind, path, msg))
    wall = time.time() - t0
    # evidence
    ev = {
        "property_id": prop,
        "tier": tier,
        "seed": seed_value,
        "level": getattr(mod, "LEVEL", "exploration"),
        "coverage": {
            "evaluations": evaluations,
            "distinct_nontrivial": len(nontrivial),
            "rule": mod.RULE,
            "samples": samples[:12],
            "labels": dict(sorted(labels.items())),
            "subchecks": {
                k: {
                    "evaluations": v["evaluations"],
                    "distinct_nontrivial": len(v["distinct_nontrivial"]),
                }
                for k, v in per_sub.items()
            },
            "known_findings_hit": dict(known_hits),
            "corpus_replays": n_corpus,
            "missing_required_label_classes": missing,
            "violation_kinds": sorted(violations),
            "exhaustive": False,
            "exhaustive_subspaces": [k for k in per_sub if "enumerate" in mod.SUBCHECKS[k]],
        },
        "assumptions": list(getattr(mod, "ASSUMPTIONS", [])),
        "wall_s": round(wall, 2),
        "violations": len(violations),
    }
    extra = getattr(mod, "evidence_extra", None)
    if extra:
        ev["coverage"].update(extra(per_sub))
    os.makedirs(os.path.join(OUT, "evidence"), exist_ok=True)
    with open(os.path.join(OUT, "evidence", f"{prop}.json"), "w") as f:
        json.dump(ev, f, indent=1, default=str)
    # report
    print(
        f"{prop} tier={tier} seed={seed_value} cases={evaluations} "
        f"nontrivial_distinct={len(nontrivial)} wall={wall:.1f}s corpus={n_corpus}"
    )
    for key, what in sorted(findings.items()):
        print(
            f"KNOWN-FINDING: property={prop} {key} {what} (cases excluded this run: {known_hits.get(key, 0)})"
        )
    if missing:
        print("note: required label classes with 0 cases: " + ", ".join(missing))
    for h in harness_errors[:3]:
        print("HARNESS-ERROR: " + h, file=sys.stderr)
    if harness_errors and not violations:
        return 2
    if violations:
        for kind, path, msg in replay_paths:
            print(f"  {kind}: {msg[:600]}")
            print(f"VIOLATION property={prop} replay={os.path.relpath(path, OUT)}")
        return 1
    if os.environ.get("VERIF_STRICT") and missing:
        return 2
    return 0
