"""Generators for domains and configuration spaces (DESIGN.md section 4).

Everything is *constructed* from tape draws.  Each generated domain comes with
a harness-owned membership predicate which does not call into the library.
"""
import math

from harness.tape import HarnessError

INT_LIM = 2**31 - 2

FLOAT_KINDS = ["uniform", "loguniform", "reverseloguniform", "quniform", "qloguniform"]
INT_KINDS = ["randint", "lograndint", "qrandint", "qlograndint"]
CAT_KINDS = ["choice", "ordinal-equal", "ordinal-nn", "ordinal-nn-log", "ordinal-default"]
FIN_KINDS = ["finrange", "logfinrange"]
ALL_KINDS = FLOAT_KINDS + INT_KINDS + CAT_KINDS + FIN_KINDS


class DomSpec:
    """A generated domain: constructor name, parameters, library object and
    the harness's own notion of membership."""

    def __init__(self, kind, params):
        self.kind = kind
        self.params = params
        self.domain = None
        self.rejected = None  # exception text if the constructor refused

    # ---- description -------------------------------------------------
    def describe(self):
        return {"kind": self.kind, **{k: _plain(v) for k, v in self.params.items()}}

    @property
    def is_float(self):
        return self.kind in FLOAT_KINDS

    @property
    def is_int(self):
        return self.kind in INT_KINDS

    @property
    def is_cat(self):
        return self.kind in CAT_KINDS

    @property
    def is_fin(self):
        return self.kind in FIN_KINDS

    @property
    def is_log(self):
        return self.kind in (
            "loguniform",
            "qloguniform",
            "lograndint",
            "qlograndint",
            "ordinal-nn-log",
            "logfinrange",
        )

    @property
    def degenerate(self):
        p = self.params
        if self.is_cat:
            return len(p["categories"]) == 1
        if self.is_fin:
            return p["size"] == 1 or p["lower"] == p["upper"]
        return p["lower"] == p["upper"]

    @property
    def nn_single(self):
        return self.kind in ("ordinal-nn", "ordinal-nn-log") and len(self.params["categories"]) == 1

    @property
    def quantized(self):
        return self.kind in ("quniform", "qloguniform", "qrandint", "qlograndint")

    @property
    def value_type(self):
        if self.is_float:
            return float
        if self.is_int:
            return int
        if self.is_cat:
            return type(self.params["categories"][0])
        return int if self.params["cast_int"] else float

    # ---- harness-owned membership -------------------------------------
    def fin_values(self):
        p = self.params
        lo, up, size = p["lower"], p["upper"], p["size"]
        out = []
        for i in range(size):
            if self.kind == "logfinrange":
                a, b = math.log(lo), math.log(up)
                y = math.exp(a + i * ((b - a) / (size - 1) if size > 1 else 0.0))
            else:
                y = lo + i * ((up - lo) / (size - 1) if size > 1 else 0.0)
            y = min(max(y, lo), up)
            out.append(y)
        return out

    def member(self, v, strict_type=True):
        """Returns None if v is a member, else a reason string."""
        p = self.params
        if isinstance(v, bool):
            return "bool value"
        if self.is_float:
            if not isinstance(v, float):
                return f"type {type(v).__name__} is not float"
            if math.isnan(v) or not (p["lower"] <= v <= p["upper"]):
                return f"{v!r} outside [{p['lower']!r}, {p['upper']!r}]"
            return None
        if self.is_int:
            if strict_type and type(v) is not int:
                return f"type {type(v).__name__} is not int"
            if not (p["lower"] <= v <= p["upper"]):
                return f"{v!r} outside [{p['lower']}, {p['upper']}]"
            return None
        if self.is_cat:
            cats = p["categories"]
            if type(v) is not type(cats[0]) and not (
                isinstance(cats[0], float) and isinstance(v, float)
            ):
                return f"type {type(v).__name__} is not {type(cats[0]).__name__}"
            if v not in cats:
                return f"{v!r} not in {cats!r}"
            return None
        # finite range
        vals = self.fin_values()
        if p["cast_int"]:
            if type(v) is not int:
                return f"type {type(v).__name__} is not int"
            for y in vals:
                if abs(v - y) <= 0.5 + 1e-9 * max(1.0, abs(y)):
                    return None
            return f"{v!r} not a rounded grid value of {vals!r}"
        if not isinstance(v, float):
            return f"type {type(v).__name__} is not float"
        for y in vals:
            if abs(v - y) <= 1e-12 * max(abs(y), abs(v)) + 1e-300:
                return None
        return f"{v!r} not among {vals!r}"

    def on_quant_grid(self, v):
        """For quantised domains: is v an integer multiple of q?"""
        q = self.params["q"]
        if self.is_int:
            return v % q == 0
        r = v / q
        return abs(r - round(r)) <= 1e-9 * max(1.0, abs(r))

    def finite_size(self):
        if self.is_cat:
            return len(self.params["categories"])
        if self.is_fin:
            return self.params["size"]
        if self.is_int:
            return self.params["upper"] - self.params["lower"] + 1
        return 1 if self.params["lower"] == self.params["upper"] else None


def _plain(v):
    if isinstance(v, (list, tuple)):
        return [_plain(x) for x in v]
    return v


# ----------------------------------------------------------------------------
def _float_lower(t):
    return t.weighted(
        [
            (3, 0.0),
            (3, 1.0),
            (2, -1.0),
            (2, 0.1),
            (1, 1e-3),
            (1, -0.3),
            (1, 0.5),
            (1, 10.0),
            (1, -1e3),
            (1, 1e6),
            (1, 1e-12),
            (1, 1e12),
            (4, None),
        ]
    )


def gen_float_bounds(t):
    lo = _float_lower(t)
    if lo is None:
        lo = t.float(-1e4, 1e4)
    w = t.weighted([(3, 1.0), (2, 0.0), (2, 10.0), (1, 1e-9), (1, 1e6), (1, 0.5), (1, 1e12), (4, None)])
    if w is None:
        w = t.float(0.0, 1e3)
    up = lo + w
    if not (up >= lo) or math.isinf(up):
        up = lo
    return lo, up


def gen_log_float_bounds(t):
    lo = t.weighted([(3, 1.0), (2, 0.1), (2, 1e-3), (1, 1e-6), (1, 2.0), (1, 10.0), (1, 1e-12), (1, 0.3), (3, None)])
    if lo is None:
        lo = t.float(1e-8, 1e4)
    f = t.weighted([(3, 10.0), (2, 1.0), (2, 2.0), (1, 1e3), (1, 1e6), (1, 1.0 + 1e-9), (3, None)])
    if f is None:
        f = t.float(1.0, 100.0)
    return lo, lo * f


def gen_revlog_bounds(t):
    lo = t.weighted([(3, 0.0), (2, 0.5), (2, 0.9), (1, 0.99), (3, None)])
    if lo is None:
        lo = t.float(0.0, 0.999)
    fr = t.weighted([(3, 0.5), (2, 0.0), (2, 0.9), (1, 0.999), (1, 0.999999), (3, None)])
    if fr is None:
        fr = t.float(0.0, 0.9999)
    up = lo + (1.0 - lo) * fr
    if not (lo <= up < 1.0):
        up = lo
    return lo, up


def gen_int_bounds(t, positive=False, small=False):
    if positive:
        lo = t.weighted([(4, 1), (2, 2), (1, 10), (1, 100), (1, 7), (2, None)])
        if lo is None:
            lo = t.int(1, 1000)
    else:
        lo = t.weighted([(3, 0), (3, 1), (2, -1), (1, -5), (1, 10), (1, -100), (1, INT_LIM - 20), (1, -INT_LIM), (3, None)])
        if lo is None:
            lo = t.int(-1000, 1000)
    if small:
        w = t.int(0, 4)
    else:
        w = t.weighted([(3, 3), (2, 0), (2, 1), (2, 10), (1, 2), (1, 100), (1, 2**20), (3, None)])
        if w is None:
            w = t.int(0, 10000)
    up = min(lo + w, INT_LIM)
    return lo, up


def gen_categories(t, increasing=False, positive=False, numeric=False, max_size=5):
    n = t.weighted([(3, 3), (2, 1), (2, 2), (1, 4), (1, max_size)])
    n = min(n, max_size)
    if increasing or numeric:
        tp = t.choice(["int", "float"])
    else:
        tp = t.choice(["str", "int", "float"])
    if tp == "str":
        pool = ["a", "b", "relu", "tanh", "x y", "", "B", "10", "1", "0.5"]
        vals = []
        while len(vals) < n:
            c = pool[t.index(len(pool))]
            if c in vals:
                c = c + str(len(vals))
            vals.append(c)
        return vals
    if tp == "int":
        start = t.int(1, 5) if positive else t.int(-5, 5)
        vals = [start]
        for _ in range(n - 1):
            vals.append(vals[-1] + t.int(1, 20))
    else:
        start = t.float(0.01, 5.0) if positive else t.float(-5.0, 5.0)
        vals = [start]
        for _ in range(n - 1):
            vals.append(vals[-1] + _pos_step(t))
    if not increasing:
        vals = t.permutation(vals)
    return vals


def _pos_step(t):
    s = t.weighted([(3, 1.0), (1, 0.01), (1, 0.5), (1, 100.0), (2, None)])
    if s is None:
        s = t.float(1e-3, 10.0)
    return s


def gen_domspec(t, kinds=None, small=False):
    """Draws one domain.  ``small``: finite domains get at most ~5 values."""
    kinds = list(kinds or ALL_KINDS)
    kind = t.choice(kinds)
    p = {}
    if kind == "uniform":
        p["lower"], p["upper"] = gen_float_bounds(t)
    elif kind == "loguniform":
        p["lower"], p["upper"] = gen_log_float_bounds(t)
    elif kind == "reverseloguniform":
        p["lower"], p["upper"] = gen_revlog_bounds(t)
    elif kind in ("quniform", "qloguniform"):
        q = t.weighted([(3, 0.5), (2, 1.0), (2, 0.25), (1, 0.1), (1, 2.0), (1, 0.01), (1, 3.0), (2, None)])
        if q is None:
            q = t.float(0.01, 10.0)
        if kind == "quniform":
            k = t.int(-20, 20)
        else:
            k = t.int(1, 40)
        m = t.weighted([(3, 4), (2, 0), (1, 1), (2, None)])
        if m is None:
            m = t.int(0, 50)
        p["lower"], p["upper"], p["q"] = k * q, (k + m) * q, q
    elif kind in ("randint", "lograndint"):
        p["lower"], p["upper"] = gen_int_bounds(t, positive=(kind == "lograndint"), small=small)
    elif kind in ("qrandint", "qlograndint"):
        q = t.weighted([(3, 2), (2, 1), (1, 3), (1, 4), (1, 5), (1, 10)])
        divisible = not t.chance(1, 4)
        if divisible:
            k = t.int(1, 20) if kind == "qlograndint" else t.int(-10, 10)
            m = t.int(0, 4 if small else 20)
            p["lower"], p["upper"] = k * q, (k + m) * q
        else:
            p["lower"], p["upper"] = gen_int_bounds(t, positive=(kind == "qlograndint"), small=small)
        p["q"] = q
        p["divisible"] = p["lower"] % q == 0 and p["upper"] % q == 0
    elif kind == "choice":
        p["categories"] = gen_categories(t)
    elif kind == "ordinal-equal":
        p["categories"] = gen_categories(t)
    elif kind == "ordinal-default":
        p["categories"] = gen_categories(t, increasing=t.bool())
    elif kind == "ordinal-nn":
        p["categories"] = gen_categories(t, increasing=True)
    elif kind == "ordinal-nn-log":
        p["categories"] = gen_categories(t, increasing=True, positive=True)
    elif kind in ("finrange", "logfinrange"):
        if kind == "finrange":
            lo, up = gen_float_bounds(t)
            if abs(lo) > 1e9 or abs(up) > 1e9:
                lo, up = 0.0, 1.0
        else:
            lo, up = gen_log_float_bounds(t)
        size = t.weighted([(3, 3), (2, 1), (2, 2), (1, 5), (1, 4), (0 if small else 2, None)])
        if size is None:
            size = t.int(1, 40)
        cast_int = t.chance(1, 3)
        if cast_int:
            # integer grids are used with integer-like bounds in the docs; keep
            # arbitrary float bounds too
            # (a grid of integers with non-integer bounds lists values outside
            # [lower, upper]: not a legal input)
            lo = float(math.floor(lo))
            up = float(math.ceil(up))
            if kind == "logfinrange" and lo < 1.0:
                # a log-scaled integer grid containing the value 0 cannot be
                # encoded (log 0): not a legal input
                lo = 1.0
                up = max(up, lo)
            if t.chance(1, 2):
                # dense integer grid starting at a small value: neighbouring grid points round to neighbouring or equal integers
                lo = float(t.int(1, 3))
                up = float(round(math.exp(t.float(math.log(lo + 1.0), math.log(1e6)))))
                size = t.int(2, 40) if not small else min(size, 5)
                if not small and t.bool():
                    # grid ratio near 1.5: rounding to int moves a grid point by about half a grid step
                    r = t.float(1.4, 1.7)
                    size = int(min(max(1 + round(math.log(up / lo) / math.log(r)), 2), 60))
        p.update(lower=lo, upper=up, size=size, cast_int=cast_int)
    else:
        raise HarnessError(kind)
    spec = DomSpec(kind, p)
    build(spec)
    return spec


def build(spec):
    """Calls the public constructor.  ValueError/AssertionError from the
    constructor means 'rejected invalid input' (accepted behaviour)."""
    import syne_tune.config_space as cs

    p = spec.params
    k = spec.kind
    try:
        if k == "uniform":
            d = cs.uniform(p["lower"], p["upper"])
        elif k == "loguniform":
            d = cs.loguniform(p["lower"], p["upper"])
        elif k == "reverseloguniform":
            d = cs.reverseloguniform(p["lower"], p["upper"])
        elif k == "quniform":
            d = cs.quniform(p["lower"], p["upper"], p["q"])
        elif k == "qloguniform":
            d = cs.qloguniform(p["lower"], p["upper"], p["q"])
        elif k == "randint":
            d = cs.randint(p["lower"], p["upper"])
        elif k == "lograndint":
            d = cs.lograndint(p["lower"], p["upper"])
        elif k == "qrandint":
            d = cs.qrandint(p["lower"], p["upper"], p["q"])
        elif k == "qlograndint":
            d = cs.qlograndint(p["lower"], p["upper"], p["q"])
        elif k == "choice":
            d = cs.choice(list(p["categories"]))
        elif k == "ordinal-equal":
            d = cs.ordinal(list(p["categories"]), kind="equal")
        elif k == "ordinal-default":
            d = cs.ordinal(list(p["categories"]))
        elif k == "ordinal-nn":
            d = cs.ordinal(list(p["categories"]), kind="nn")
        elif k == "ordinal-nn-log":
            d = cs.logordinal(list(p["categories"]))
        elif k == "finrange":
            d = cs.finrange(p["lower"], p["upper"], p["size"], cast_int=p["cast_int"])
        elif k == "logfinrange":
            d = cs.logfinrange(p["lower"], p["upper"], p["size"], cast_int=p["cast_int"])
        else:
            raise HarnessError(k)
        spec.domain = d
    except (ValueError, AssertionError) as e:
        spec.domain = None
        spec.rejected = f"{type(e).__name__}: {e}"
    return spec


NAMES = ["lr", "batch", "zeta", "alpha", "Layers", "_x", "m", "wd", "act", "b2"]


def gen_space(t, min_hp=1, max_hp=4, kinds=None, small=False, consts=True):
    """A configuration space: list of (name, DomSpec) plus constants.  Names
    are chosen so that sorted order differs from insertion order."""
    n = t.int(min_hp, max_hp)
    names = t.permutation(NAMES)[: n + 2]
    specs = {}
    order = []
    i = 0
    guard = 0
    while len(specs) < n:
        guard += 1
        if guard > 50:
            raise HarnessError("cannot build space")
        s = gen_domspec(t, kinds=kinds, small=small)
        if s.domain is None:
            continue
        if s.nn_single:
            continue  # known finding, decided in C07 'domain' only
        specs[names[i]] = s
        order.append(names[i])
        i += 1
    constants = {}
    if consts:
        nc = t.weighted([(3, 0), (2, 1), (1, 2)])
        for j in range(nc):
            nm = ["epochs", "dataset"][j]
            constants[nm] = t.choice([27, "cifar", 0.5, 1])
    return specs, constants


def space_dict(specs, constants, const_first=False):
    cs = {}
    if const_first:
        cs.update(constants)
    for k, s in specs.items():
        cs[k] = s.domain
    if not const_first:
        cs.update(constants)
    return cs
