#!/bin/bash
# offline set-up: hypothesis must be importable by the repository's interpreter
PY=${VERIF_PYTHON:-/venv/bin/python}
if ! "$PY" -c "import hypothesis" 2>/dev/null; then
  "$PY" -m pip install --no-index --find-links /opt/veriftools/wheels hypothesis || exit 1
fi
"$PY" -c "import hypothesis; print('hypothesis', hypothesis.__version__)"
