#!/bin/bash
# tools/confirm_mutant_par.sh <worktree> <mutant-dir> : like confirm_mutant.sh, but with per-worktree temporary files (safe to run several at once)
wt=$1; m=$2; tag=$(basename $wt)
T=$(mktemp -d /tmp/cm_${tag}_XXXX)
cd $wt || exit 2
git checkout -q -- syne_tune
PYTHONPATH=$wt /venv/bin/python $m/demo.py >$T/clean.txt 2>&1; rc_clean=$?
git apply $m/patch.diff || { echo "$tag patch does not apply"; exit 2; }
PYTHONPATH=$wt /venv/bin/python $m/demo.py >$T/mut.txt 2>&1; rc_mut=$?
PYTHONPATH=$wt /venv/bin/python -m pytest -q -p no:cacheprovider --timeout=900 --continue-on-collection-errors --junitxml=$T/j.xml >$T/suite.txt 2>&1
git checkout -q -- syne_tune
echo "$tag demo clean rc=$rc_clean ; demo patched rc=$rc_mut ; suite: $(tail -1 $T/suite.txt)"
/venv/bin/python - $T/j.xml $tag <<'PY'
import json, sys, xml.etree.ElementTree as ET
want=set(json.load(open('/root/.vp/BASELINE.json'))['stable_pass'])
got=set()
for tc in ET.parse(sys.argv[1]).getroot().iter('testcase'):
    if not any(c.tag in ('failure','error','skipped') for c in tc):
        got.add(f"{tc.get('classname')}::{tc.get('name')}")
print(sys.argv[2], "baseline missing with patch:", sorted(want-got))
PY
rm -rf $T
