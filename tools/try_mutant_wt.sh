#!/bin/bash
# tools/try_mutant_wt.sh <ID> <worktree> <patch.diff> [scale] [extra vcheck args]: applies the patch INSIDE the scratch worktree (not /repo),
# runs the check against that worktree (VERIF_REPO) with outputs under /tmp/mutout, reverts the worktree
id=$1; wt=$2; patch=$3; scale=${4:-1.0}; shift 4
cd $wt || exit 2
git checkout -q -- syne_tune
git apply $patch || { echo "patch does not apply"; exit 2; }
cd /verif && VERIF_REPO=$wt VERIF_OUT=/tmp/mutout ./vcheck $id --scale $scale "$@" 2>&1 | grep -v KNOWN-FINDING | cut -c1-500 | head -${KT_LINES:-8}
cd $wt && git checkout -q -- syne_tune
