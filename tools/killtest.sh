#!/bin/bash
# tools/killtest.sh <ID> <scale> <file-relative-to-repo> <python-regex-old> <new>   : mutate /repo, run check, restore
id=$1; scale=$2; file=$3; old=$4; new=$5
cd /repo || exit 2
if [ -n "$(git status --porcelain -- syne_tune)" ]; then echo "repo dirty"; exit 2; fi
/venv/bin/python - "$file" "$old" "$new" <<'PY'
import sys,re
p,old,new=sys.argv[1:4]
s=open(p).read()
n=s.count(old)
if n!=1:
    print("pattern count",n); sys.exit(3)
open(p,'w').write(s.replace(old,new))
PY
rc=$?
if [ $rc -ne 0 ]; then git checkout -- .; exit $rc; fi
cd /verif && ./vcheck $id --scale $scale 2>&1 | grep -v KNOWN-FINDING | cut -c1-400 | head -${KT_LINES:-6}
git -C /repo checkout -- .
rm -rf /verif/replays/$id
