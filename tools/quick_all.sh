#!/bin/bash
# tools/quick_all.sh : runs every quick tier once (VERIF_SEED from the environment, default 1), summary on stdout
cd /verif; mkdir -p logs
for id in C01 C02 C03 C04 C05 C06 C07 C08 C09 C10 C11 C12 C13 C14 C15 C16 C17 C18 C19 C20; do
  start=$(date +%s)
  ./vcheck $id --tier quick > logs/quick_$id.log 2>&1
  rc=$?
  echo "$id rc=$rc wall=$(( $(date +%s) - start ))s $(grep -c '^VIOLATION' logs/quick_$id.log) violations; $(grep -v KNOWN logs/quick_$id.log | head -1 | cut -c1-120)"
done
