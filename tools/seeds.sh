#!/bin/bash
# tools/seeds.sh C07 [seeds...] : runs the quick tier at several seeds, prints the summary lines
id=$1; shift
seeds=${@:-1 2 3}
for s in $seeds; do VERIF_SEED=$s ./vcheck $id --tier quick 2>&1 | grep -v "^KNOWN-FINDING" | cut -c1-600; echo "  -> rc=${PIPESTATUS[0]}"; done
