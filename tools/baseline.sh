#!/bin/bash
# Runs the pinned test-suite of /repo (guard OFF) and compares with BASELINE.json's stable_pass list.
OUT=$(mktemp -d)
cd /repo && /venv/bin/python -m pytest -ra -q -p no:cacheprovider --timeout=900 --continue-on-collection-errors --junitxml=$OUT/j.xml > $OUT/log.txt 2>&1
tail -3 $OUT/log.txt
/venv/bin/python - "$OUT/j.xml" <<'PY'
import json, sys, xml.etree.ElementTree as ET
base = json.load(open('/root/.vp/BASELINE.json'))
want = set(base['stable_pass'])
got = set()
for tc in ET.parse(sys.argv[1]).getroot().iter('testcase'):
    if not any(c.tag in ('failure','error','skipped') for c in tc):
        got.add(f"{tc.get('classname')}::{tc.get('name')}")
missing = sorted(want - got)
print(f"baseline: {len(want)} expected to pass, {len(want & got)} passed, {len(missing)} missing")
for m in missing[:20]: print("  MISSING", m)
sys.exit(1 if missing else 0)
PY
rc=$?
rm -rf $OUT
exit $rc
