#!/venv/bin/python
"""Writes /verif/MANIFEST.json from the table below (kept in one place so the
manifest is always valid)."""
import json
import os

HERE = os.path.dirname(os.path.dirname(os.path.abspath(__file__)))

CHECKS = {}


def add(pid, category, text, note, technique, design_ref):
    CHECKS[pid] = dict(
        property_id=pid,
        quick_cmd=f"./vcheck {pid} --tier quick",
        thorough_cmd=f"./vcheck {pid} --tier thorough",
        evidence_file=f"evidence/{pid}.json",
        replay_cmd_template=f"./vcheck {pid} --replay {{path}}",
        engine="vcheck",
        level_claimed=dict(category=category, text=text, design_ref=design_ref),
        level_note=note,
        technique=technique,
    )


add(
    "C07",
    "exploration",
    "Generated search over every public domain constructor (incl. degenerate parameters), seeds, unit-cube vectors, "
    "active sub-ranges, fixed last position and JSON forms against a harness-owned membership predicate and round-trip "
    "oracles; ~1e5 cases quick, ~2.4e6 thorough. Falsification only: absence of violations on the explored cases.",
    "Trusts CPython/numpy and the harness predicate (harness/gen_domains.py DomSpec.member). Integer bounds limited to "
    "|v| <= 2^31-2. Three listed known findings are excluded by construction and counted.",
    "property-based testing (Hypothesis choice tape): membership predicate + encode/decode and JSON round-trip oracles",
    "DESIGN.md 6/C07",
)

add(
    "C08",
    "exploration",
    "Generated data sets (n 1..12, d 1..4, duplicates and near-duplicates, targets or fantasy matrices), kernels (Matern-5/2 +-ARD "
    "+-scale, one / two Kumaraswamy warpings, product, exponential-decay resource kernel and its products / warped products, kernels given as (kernel, scale) pair), scalar / zero mean and parameters anywhere in "
    "their boxes incl. corners; kernel matrices against a textbook numpy kernel, then posterior state, predict, neg_log_likelihood, "
    "sample_joint covariance, update / sample_and_update and GaussianProcessRegression.predict / likelihood against a dense numpy "
    "reference with conditioning-scaled tolerance. 4.8e4 cases quick, 8e5 thorough.",
    "The exponential-decay kernel has no harness formula: its matrix is required symmetric / PSD / consistent with diagonal() and the GP "
    "algebra is checked on it. Cases whose conditioning-scaled tolerance exceeds 1e-3 are counted and skipped. Joint samples: 7 standard errors.",
    "property-based testing (Hypothesis choice tape): differential against a dense numpy reference implementation",
    "DESIGN.md 6/C08",
)

add(
    "C09",
    "exploration",
    "Generated surrogate models (kernels, means, Box-Cox / identity target transform, both parameter encodings, parameter vectors anywhere "
    "in the box incl. corners and lambda in {0, +-1e-7}) and data sets: (value, gradient) of the scipy objective from "
    "create_lbfgs_arguments against multi-scale Ridders-extrapolated central differences; EI / LCB / EIpu / CEI on GP predictors built by the "
    "library's estimator (pending evaluations with 1-5 fantasies, normalisation on/off) and on a harness-side predictor with prescribed "
    "moments (|u| up to 40, tiny std, infeasible incumbents, non-positive cost): value == value-with-gradient, gradient vs numerical "
    "derivative, EI == closed form and EI >= 0, own value unchanged after a call with an overriding predictor. 2.2e4 cases quick, 5.6e5 thorough.",
    "A numerical derivative decides only where it is trustworthy: steps start near the width of the narrowest feature; a run whose extrapolation "
    "settled and reproduces the analytic value to 2e-5 accepts it; a mismatch needs two conclusive extrapolations (error estimate and "
    "conditioning-scaled round-off bound below 1e-4 of the derivative) that agree with each other, differ from the analytic value by more than 1e-3 and "
    "are not contradicted by a finer-step run; everything else is counted as inconclusive. MCMC predictors not generated.",
    "property-based testing (Hypothesis choice tape): analytic gradients vs multi-scale Ridders numerical differentiation; closed-form oracle for EI",
    "DESIGN.md 6/C09",
)

add(
    "C18",
    "exploration",
    "Generated scripts of Reporter calls, noise and must-be-rejected reports (reserved keys, unserialisable values or keys, oversize), emitted through the real Reporter, written to a "
    "file and parsed by the real retrieve(); oracle: parsed list == accepted reports (structural, NaN-aware, bit-exact floats). "
    "~8e4 scripts quick, ~1.9e6 thorough.",
    "Clock of syne_tune.report replaced by a harness clock; noise never contains the tag; JSON-native value trees plus numpy scalars.",
    "property-based testing (Hypothesis choice tape): emit/parse round-trip oracle with hostile strings and interleaved noise",
    "DESIGN.md 6/C18",
)

add(
    "C19",
    "exploration",
    "Generated point sets against brute-force dominance / layer peeling (plus complete enumeration of all 2-D sets with N<=4 on a "
    "3x3 grid), and generated MOASHA runs (reduction factor, grace period, brackets, mode lists, three priorities, report "
    "interleavings, results reported with shuffled key order) against a reference rung model; a decision is a violation only if no layer-consistent order justifies it.",
    "Trials report consecutive levels; order inside a Pareto layer is free; brackets are read from the scheduler's trial->bracket map.",
    "property-based testing (Hypothesis choice tape) + exhaustive enumeration of a small sub-space: brute-force reference model",
    "DESIGN.md 6/C19",
)

add(
    "C03",
    "exploration",
    "Generated scheduler arguments (rung systems, brackets shared/per-bracket, mode, RUSH) and metric curves, every tape-chosen "
    "interleaving of up to 4 concurrent trials through the protocol driver (the harness plays the Tuner); decisions and rung "
    "contents compared after every event with a reference model written from the doc-strings (numpy.quantile, q=r_j/r_{j+1}). "
    "~3e4 histories quick, 6e5 thorough.",
    "trial->bracket map and rung snapshots are read from the scheduler; ties within 4 ulp of the data scale may go either way, as the property states.",
    "property-based testing (Hypothesis choice tape, stateful protocol driver): differential against a reference model",
    "DESIGN.md 6/C03",
)

add(
    "C04",
    "exploration",
    "Generated promotion-type schedulers (ASHA, PASHA, cost-aware, RUSH; rung systems, brackets, mode, max_resource_attr on/off), "
    "scripts with and without checkpointing and every tape-chosen interleaving of suggest calls and reports of up to 4 trials; "
    "every decision and every suggest outcome must be allowed by a stateful reference model of the documented rule "
    "(top-down scan, best unpromoted entry, numpy.quantile / cumulative-cost eligibility, next-level target, PASHA cap). "
    "~2.4e4 histories quick, 5e5 thorough.",
    "trial->bracket map, rung entries and PASHA cap read from the scheduler; PASHA with one bracket; per-bracket rung systems: "
    "soundness for resumes + completeness for new trials (the sampled bracket of a resume is not observable). One listed known finding.",
    "property-based testing (Hypothesis choice tape, stateful protocol driver): validity predicate against a stateful reference model",
    "DESIGN.md 6/C04",
)

add(
    "C05",
    "exploration",
    "Rule-based histories (next_job / on_result in any order, NaN failures) on the synchronous and DEHB bracket managers, scheduler-level "
    "histories with failures through the protocol driver, and complete enumeration of all result orders / failure subsets for five small "
    "rung systems (1.2e6 histories quick, 1.1e7 thorough); oracle: reference bracket model (lowest open bracket first, new bracket when all "
    "wait, bracket_rungs[id mod n], exact rung filling, promotions only from complete rungs and only of valid top entries).",
    "Ties and NaN entries may be ordered either way. Five listed known findings (DEHB corner cases) are excluded by construction and counted; "
    "the 'never blocks' clause is decided per call with a 3 s watchdog only inside the known-finding class.",
    "property-based testing (Hypothesis choice tape, rule-based state machine) + exhaustive enumeration of small systems: reference bracket model",
    "DESIGN.md 6/C05",
)

add(
    "C10",
    "exploration",
    "Real Tuner + UserBlackboxBackend on generated tables (monotone / noisy / tiny / huge time columns, 1-3 seeds), generated delays, "
    "sleep times, workers, checkpointing and max_resource_attr settings, all model-free scheduler families; a reference re-computation "
    "(ref_sim) from the table and the observed start/resume events must reproduce every handed result: values, consecutive levels, one "
    "seed per trial, st_tuner_time, monotone clock, sleeps charged once. 2e4 runs quick, 3e5 thorough.",
    "Harness-owned wall clock (fake time module seen by time keeper, tuner, status, results callback); the training script's checkpoint "
    "directory is created by the harness; per-trial seed inferred from values when the back-end seed is None.",
    "property-based testing (Hypothesis choice tape driving the real Tuner in the simulator): differential against a table-replay reference model",
    "DESIGN.md 6/C10",
)

add(
    "C02",
    "exploration",
    "Real Tuner over (1) a scripted file back-end in which Hypothesis owns how many tagged reports each live script flushes per poll, "
    "when its exit becomes visible, how many late lines are written before a kill and whether a resumed script restarts, with "
    "tape-driven decisions (any CONTINUE/STOP/PAUSE/resume sequence) or real schedulers, and (2) the simulator on generated tables; "
    "history invariants over (trial, run, seq) tags: ordered duplicate-free gap-free prefix, complete when the run completed, nothing "
    "after a STOP/PAUSE decision (also after resume), results log == delivery. 2.6e4 runs quick, 5e5 thorough.",
    "The scripted back-end replaces LocalBackend._schedule only; SageMaker / Python back-ends are not executed (they share the generic logic).",
    "property-based testing (Hypothesis choice tape owning the worker schedule, real Tuner): delivery-ledger invariants over tagged reports",
    "DESIGN.md 6/C02",
)

add(
    "C01",
    "exploration",
    "Real Tuner runs in the simulator (all model-free scheduler families, generated tables / delays / sleep times / flags) and over the "
    "scripted file back-end (arbitrary batching, failures, tape-driven or real schedulers); a life-cycle automaton, occupancy counter and "
    "notification grammar are checked over the complete recorded history (ids in sequence, <= n_workers, resume only from paused, polled "
    "set == occupying set, exactly one end notification per run, on_trial_add once and first). 2e4 runs quick, 4e5 thorough.",
    "'At every moment' = at every back-end / scheduler call of the single-threaded loop. GP searchers are not part of the Tuner-level "
    "runs (cost); their protocol behaviour is covered through the protocol driver in C06/C13/C14.",
    "property-based testing (Hypothesis choice tape owning the worker schedule, real Tuner): history invariants (life-cycle automaton)",
    "DESIGN.md 6/C01",
)

add(
    "C12",
    "exploration",
    "Real Tuner in the simulator and over the scripted file back-end with generated stopping criteria (all count fields, wall-clock on "
    "the harness / simulated clock, metric thresholds incl. thresholds on never-reported metrics, combinations), flags, failures, NaN metric values, failure limits, finite spaces and an injected "
    "scheduler exception; every evaluation of the criterion by the loop is recorded and compared with the monitor's own recomputation "
    "from independent counts; no iteration / no start after the criterion held; bounded overshoot; after run(): nothing alive, results "
    "file complete, TuningStatus counters == states from the history. 1.8e4 runs quick, 3.5e5 thorough.",
    "Liveness is a bounded statement (finite scripts, loop guard 20000 iterations = no-termination). 'Left running' judged on the "
    "scripted back-end only, as the property says. Failing jobs are not combined with synchronous Hyperband / DEHB here (known findings of C13 / C05).",
    "property-based testing (Hypothesis choice tape, real Tuner): recording proxy vs independent recomputation + history invariants",
    "DESIGN.md 6/C12",
)

add(
    "C17",
    "exploration",
    "Real Tuner over the scripted back-end (1-3 metrics with per-metric modes, NaN/inf/string/bool values, ties, trials without "
    "results, skipped mid-batch results) and in the simulator (configuration changes on resume); oracles: results table == delivery "
    "history row by row (values, trial_id, config_* at delivery time, decision, time stamp), CSV read-back == memory (1e-12), "
    "Tuner.best_config / load_experiment().best_config attain the optimum over handed values / table rows, running statistics == "
    "Python min/max/sum/len over the handed values. 1.4e4 runs quick, 2.7e5 thorough.",
    "Empty-string metric values are not generated (an empty CSV cell); when every value of a metric is the worst infinite value the best-config clause is skipped.",
    "property-based testing (Hypothesis choice tape, real Tuner): history vs results table, round-trip and independent recomputation oracles",
    "DESIGN.md 6/C17",
)

add(
    "C20",
    "exploration",
    "Real Tuner over the scripted file back-end with real checkpoint directories, delete_checkpoints on/off, every pause-and-resume "
    "scheduler (promotion Hyperband, PASHA, synchronous Hyperband + RemoveCheckpointsCallback, DEHB, PBT), 1-4 workers, tape-chosen "
    "batching and order of results inside a poll, NaN-reporting scripts; a checkpoint ledger over the history decides when a delete is "
    "legal and that every resume / clone finds its checkpoint (not deleted before, directory on disk). 1.6e4 runs quick, 3e5 thorough.",
    "Speculative early removal is exempt by the property and not generated. 'Provably never resumed' is judged on each generated history.",
    "property-based testing (Hypothesis choice tape owning batching and in-poll order, real Tuner): checkpoint-ledger invariants",
    "DESIGN.md 6/C20",
)

add(
    "C15",
    "exploration",
    "Twin executions in lockstep (mode=min on f vs mode=max on -f, same arguments, seeds and tape-chosen events) for FIFO random/grid, all "
    "Hyperband variants incl. RUSH, synchronous Hyperband, DEHB, PBT, regularised evolution, median rule and MOASHA with mode lists, plus whole "
    "simulated Tuner runs on f / -f tables; suggestions, decisions, delivery histories and Tuner.best_config must be identical. Pairs in "
    "which a rung cut-off lies within round-off of a metric value are dropped and counted (the property's caveat). 1.9e4 pairs quick, 3.6e5 thorough.",
    "Metric values are distinct by construction. GP-based searchers are outside the property's quantifier. The cut-off-coincidence filter "
    "uses the C03/C04 reference models.",
    "property-based testing (Hypothesis choice tape): metamorphic relation min(f) == max(-f) on lockstep twins",
    "DESIGN.md 6/C15",
)

add(
    "C11",
    "exploration",
    "Lockstep twins of every scheduler family that accepts random_seed (same arguments, seed and tape-chosen events) with numpy's and "
    "Python's global generators re-seeded differently before every call of either twin and unrelated instances constructed and driven "
    "in between; plus fresh-process twins: the same scenario tape (protocol history incl. GP searchers, or a whole simulated Tuner run) "
    "replayed in two child processes with different PYTHONHASHSEED and global seeds; traces / result tables must be identical. "
    "Half of the child pairs replay a batch of 8 model-free scenarios (import cost paid once). 1.6e4 twin histories + 48 child pairs quick, 3e5 + 800 thorough.",
    "MOASHA (no random_seed) and per-trial back-end seeds (seed=None draws from the global generator by design) are outside the quantifier.",
    "property-based testing (Hypothesis choice tape): metamorphic twins under global-RNG / hash-seed perturbation, fresh-process replay",
    "DESIGN.md 6/C11",
)

add(
    "C06",
    "exploration",
    "Generated configuration spaces (all domain constructors, constants, single-value domains), points_to_evaluate lists and "
    "histories with results / failures / pending trials for FIFO random, grid and GP searchers, Hyperband with random and GP "
    "multi-fidelity searchers, synchronous Hyperband, DEHB, PBT and regularised evolution; finite spaces are driven to exhaustion. "
    "Oracle: harness membership / type predicate for every suggestion, harness re-implementation of the mid-point imputation for "
    "the initial list, match-string uniqueness for no-repeat searchers, None only at exhaustion, grid == itertools.product once. "
    "GP histories include NaN metric values, all searcher_data policies and scripts ending early; a dedicated sub-check exhausts tiny finite "
    "spaces with GP searchers. 3e4 model-free + 640 + 1600 GP histories quick, 5e5 + 1e4 + 3e4 thorough.",
    "Exact ties of the nearest-value rule end the initial-order comparison; continuous domains narrower than the 7-digit match string are "
    "not generated; two listed known findings (bounded random retries; ended trials without a finite observation are forgotten by the GP searchers) are excluded and counted.",
    "property-based testing (Hypothesis choice tape, stateful protocol driver): validity predicates + reference imputation model",
    "DESIGN.md 6/C06",
)

add(
    "C13",
    "fault_enumeration",
    "Generated fault placement: on_trial_error injected at any point of any trial's life for every scheduler / searcher family (incl. GP "
    "single- and multi-fidelity) through the protocol driver, and failing / externally stopped jobs under the real Tuner over the scripted "
    "back-end with max_failures 0..5. Oracle: no scheduler call raises after a failure, no failed trial resumed, failed configuration not "
    "re-suggested (also with allow_duplicates=True, where only failed configurations stay black-listed, and with restrict_configurations, which draws suggestions from a given list through its own code path), the failed trial's own pending evaluations gone, other trials' pending evaluations / rung entries / bracket slots unchanged across on_trial_error, exactly one "
    "on_trial_error per failed run, failure limit enforced with an error naming a failed trial. 1.4e4 histories + 640 GP + 6e3 Tuner runs quick. "
    "In addition a complete enumeration of a small scope: per model-free family, two deterministic schedules x 2 seeds x 2 worker counts, every "
    "set of <= 2 (thorough <= 3) failure placements on a (trial) x (report index over the trial's life) grid: 1.1e4 quick, 2.1e5 thorough.",
    "Fault positions are enumerated completely only inside the stated small scope; beyond it they are generated (Hypothesis). Three listed known findings "
    "(synchronous Hyperband promotes failed trials when too few valid results remain; two DEHB crashes) are excluded and counted.",
    "property-based testing with fault injection (Hypothesis choice tape places failures in generated histories) + complete enumeration of small fault plans: invariants before/after the fault",
    "DESIGN.md 6/C13",
)

add(
    "C14",
    "exploration",
    "Stopping / promotion Hyperband with GP multi-fidelity and HyperTune searchers, all searcher_data policies, register_pending_myopic, "
    "1-3 brackets, both reward maps, scripts with / without checkpointing and failures, every tape-chosen interleaving of up to 3 trials; "
    "after every event the searcher's data set (state_transformer.state) must contain exactly the (trial, level) pairs the policy selects "
    "from what was delivered, once each and with the mapped reported value, and pending entries only for running trials at unobserved "
    "levels. 4e3 histories quick (GP really fitted), 8e4 thorough.",
    "DyHPO is not generated (does not construct in this image without extra set-up); HyperTune with searcher_data='rungs' only (its model is defined at rung levels).",
    "property-based testing (Hypothesis choice tape, stateful protocol driver): state invariant after every event against a reference data policy",
    "DESIGN.md 6/C14",
)

add(
    "C16",
    "exploration",
    "Histories cut at a tape-chosen position (incl. position 0, with pending / running / paused trials); the scheduler is restored by a "
    "dill round-trip (all families incl. GP) or its searcher by clone_from_state(pickle round-trip of get_state()) (random, grid, GP FIFO, "
    "GP multi-fidelity); restored and uninterrupted objects are driven in lockstep with the same continuation and must produce identical "
    "suggestions and decisions; GP snapshots are also restored into a newly constructed searcher (block-name counters reset, as after a restart); random search also with allow_duplicates=True; spaces incl. finrange / logfinrange. 1.4e4 model-free + 960 GP histories quick, 2.8e5 + 1.5e4 thorough.",
    "Both twins live in one process (a restart is emulated by resetting the process-global block-name counters). Tuner.save/load on whole simulated runs is not exercised separately (same dill path).",
    "property-based testing (Hypothesis choice tape): metamorphic relation restore(snapshot) == uninterrupted, lockstep twins",
    "DESIGN.md 6/C16",
)

NOT_YET = {}

ALL = [f"C{i:02d}" for i in range(1, 21)]


def main():
    na = [
        {"property_id": p, "reason": NOT_YET.get(p, "check not built yet in this round (planned, see DESIGN.md section 6)")}
        for p in ALL
        if p not in CHECKS
    ]
    m = {
        "version": 1,
        "setup_cmd": "./setup.sh",
        "hooks": {
            "guard": "SYNE_TUNE_VERIF",
            "enable": "no guarded source hooks exist: checks observe through public API, harness-side subclasses and per-instance wrappers",
            "baseline_off_cmd": "cd /repo && /venv/bin/python -m pytest -ra -q -p no:cacheprovider --timeout=900 --continue-on-collection-errors",
            "source_commits": [],
            "add_only": True,
        },
        "engines": [
            {
                "name": "vcheck",
                "path": "vcheck",
                "serves_properties": sorted(CHECKS),
                "kind_free_text": "Hypothesis-driven choice tape (generation == replay), 16-way sharded runner, known-findings exclusion, regression corpus replay",
            }
        ],
        "checks": [CHECKS[p] for p in sorted(CHECKS)],
        "notes": "All checks: ./vcheck <id> --tier quick|thorough; VERIF_SEED selects the Hypothesis seed; exit 0 held / 1 VIOLATION / 2 harness error. known_findings.json lists recorded and fixed defects.",
        "not_applicable": na,
    }
    with open(os.path.join(HERE, "MANIFEST.json"), "w") as f:
        json.dump(m, f, indent=1)
    print("wrote MANIFEST.json with", len(CHECKS), "checks")


if __name__ == "__main__":
    main()
