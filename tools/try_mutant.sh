#!/bin/bash
# tools/try_mutant.sh <ID> <patch.diff> [scale] : apply to /repo, run the check, revert
id=$1; patch=$2; scale=${3:-1.0}
cd /repo || exit 2
if [ -n "$(git status --porcelain -- syne_tune)" ]; then echo "repo dirty"; exit 2; fi
git apply $patch || { echo "patch does not apply to /repo"; exit 2; }
cd /verif && ./vcheck $id --scale $scale 2>&1 | grep -v KNOWN-FINDING | cut -c1-500 | head -${KT_LINES:-8}
git -C /repo checkout -- .
