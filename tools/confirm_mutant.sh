#!/bin/bash
# tools/confirm_mutant.sh <worktree> <mutant-dir> : demo passes clean, fails patched, test-suite unchanged with patch
wt=$1; m=$2
cd $wt || exit 2
git checkout -q -- syne_tune
PYTHONPATH=$wt /venv/bin/python $m/demo.py >/tmp/cm_clean.txt 2>&1; rc_clean=$?
git apply $m/patch.diff || { echo "patch does not apply"; exit 2; }
PYTHONPATH=$wt /venv/bin/python $m/demo.py >/tmp/cm_mut.txt 2>&1; rc_mut=$?
PYTHONPATH=$wt /venv/bin/python -m pytest -q -p no:cacheprovider --timeout=900 --continue-on-collection-errors --junitxml=/tmp/cm_j.xml >/tmp/cm_suite.txt 2>&1
git checkout -q -- syne_tune
echo "demo clean rc=$rc_clean ; demo patched rc=$rc_mut ; suite: $(tail -1 /tmp/cm_suite.txt)"
/venv/bin/python - <<'PY'
import json, xml.etree.ElementTree as ET
want=set(json.load(open('/root/.vp/BASELINE.json'))['stable_pass'])
got=set()
for tc in ET.parse('/tmp/cm_j.xml').getroot().iter('testcase'):
    if not any(c.tag in ('failure','error','skipped') for c in tc):
        got.add(f"{tc.get('classname')}::{tc.get('name')}")
print("baseline missing with patch:", sorted(want-got))
PY
