#!/venv/bin/python
"""tools/replay_probe.py <replay.json> : print the kind, message tail and the tape head"""
import json, sys
d = json.load(open(sys.argv[1]))
print(d["kind"]); print(d["message"][-int(sys.argv[2]) if len(sys.argv) > 2 else -1200:]); print("log:", d["log"][:60])
