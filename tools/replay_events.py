#!/venv/bin/python
"""tools/replay_events.py <replay.json> [n] : re-run a replay of a Tuner-level check and print the last n recorded events"""
import json, sys
sys.path.insert(0, "/verif")
from harness import env; env.prepare()
from harness.tape import Tape, Violation
from harness import driver_sim, driver_scripted, runner
d = json.load(open(sys.argv[1])); n = int(sys.argv[2]) if len(sys.argv) > 2 else 40
mod = runner.get_module(d["property"]); fn = mod.SUBCHECKS[d["subcheck"]]["fn"]
recs = []
orig = driver_sim.Recorder.__init__
def init(self):
    orig(self); recs.append(self)
driver_sim.Recorder.__init__ = init
try:
    with env.quiet():
        fn(Tape(log=d["log"]))
except Violation as v:
    print("VIOLATION", v.kind, str(v.detail)[:300])
except Exception as e:
    print("EXC", type(e).__name__, e)
for e in recs[-1].events[-n:]:
    e = {k: v for k, v in e.items() if k not in ("config", "report")}
    print(json.dumps(e, default=str)[:260])
