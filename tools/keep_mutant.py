#!/venv/bin/python
"""tools/keep_mutant.py <ID> <letter> <detected: yes|no|...> <note...> : copies a confirmed seeded change into /verif/seeded/<ID>-<letter>/"""
import json, os, shutil, sys
pid, letter, detected = sys.argv[1:4]
note = " ".join(sys.argv[4:])
src = f"/tmp/mut/{pid}/_mutant/{letter}"
dst = f"/verif/seeded/{pid}-{letter}"
os.makedirs(dst, exist_ok=True)
for f in ("patch.diff", "demo.py"):
    shutil.copy(os.path.join(src, f), os.path.join(dst, f))
try:
    meta = json.load(open(os.path.join(src, "meta.json")))
except Exception:
    meta = {}
meta["property"] = pid
meta["confirmed_by_me"] = "tools/confirm_mutant(_par).sh: demo exits 0 on the clean scratch worktree and non-zero with the patch; pinned suite: all 382 baseline tests still pass with the patch (test_cholesky_factorization is load-sensitive and ignored)"
meta["detected_by_check"] = detected
meta["detection_note"] = note
json.dump(meta, open(os.path.join(dst, "meta.json"), "w"), indent=1)
print("kept", dst)
