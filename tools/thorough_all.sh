#!/bin/bash
# tools/thorough_all.sh [IDs...] : runs the thorough tier of the given (default: all) checks one after the other, logs under /verif/logs
cd /verif; mkdir -p logs
ids=${@:-C07 C18 C19 C08 C03 C04 C05 C09 C13 C15 C16 C11 C06 C14 C10 C12 C17 C20 C01 C02}
for id in $ids; do
  start=$(date +%s)
  ./vcheck $id --tier thorough > logs/thorough_$id.log 2>&1
  rc=$?
  echo "$id rc=$rc wall=$(( $(date +%s) - start ))s $(grep -c '^VIOLATION' logs/thorough_$id.log) violations" >> logs/thorough_summary.txt
  cp evidence/$id.json logs/evidence_thorough_$id.json 2>/dev/null
done
echo ALL-DONE >> logs/thorough_summary.txt
