"""C09 — gradients for model fitting and acquisition search are the true derivatives."""
import math

import numpy as np

from harness.gen_gp import build_kernel, gen_points, resource_value
from harness.numdiff import check_derivative
from harness.tape import HarnessError, Result, Violation

PROPERTY = "C09"
LEVEL = "exploration"
RULE = (
    "(fit) generated data sets (n 2..10, d 1..3), kernel (Matern-5/2 +-ARD +-scale, warped, product, exponential-decay resource kernel; "
    "logarithm and softplus encodings), scalar / zero mean, identity / Box-Cox target transform (lambda incl. 0, +-1e-7 and the box corners) "
    "and a parameter vector anywhere inside the box constraints: the (value, gradient) pair of the scipy objective from "
    "create_lbfgs_arguments against Ridders-extrapolated central differences of the criterion along up to 4 coordinates and one dense "
    "direction; value == criterion evaluated without gradient. (acq-gp) GP predictors built by GaussProcEmpiricalBayesEstimator on "
    "generated tuning-job states (observed, 0..3 pending with 1..5 fantasy samples, target normalisation on/off) for EI, LCB, EI-per-unit-"
    "cost and constrained EI: compute_acq_with_gradient vs compute_acq (value) and vs differences along every input coordinate at an "
    "interior point; EI == closed form computed by the harness from predict() and current_best(), and <= 0. (heads) the same for a "
    "harness-side predictor with prescribed mean / std / gradients, reaching |u| up to 40, tiny / large std, infeasible incumbents, "
    "non-positive predicted cost. A derivative counts as violated only if two Ridders runs with different step sizes are both conclusive "
    "(error estimate <= 1e-4 of the derivative), agree, and differ from the analytic value by more than 300 error estimates and 2e-5 "
    "relative. Non-trivial = (fit) >= 4 parameters with a conclusive comparison; (acq) pending evaluations with >= 2 fantasies or a "
    "two-output acquisition; distinct = distinct choice tape."
)
ASSUMPTIONS = [
    "numerical differentiation decides: comparisons whose two extrapolations do not settle (ill-conditioned kernel matrices, points next to a training input) are counted as inconclusive, never as violations",
    "MCMC-averaged predictors are not generated (the slice sampler is outside the anchored files)",
]


# ------------------------------------------------------------------ fit criterion


def _draw_value(t, lo, up, special=()):
    if lo is not None and up is not None and lo == up:
        return lo
    c = t.weighted([(6, None), (1, "lo"), (1, "up")] + [(1, s) for s in special])
    if c == "lo" and lo is not None:
        return lo
    if c == "up" and up is not None:
        return up
    if c not in (None, "lo", "up"):
        return c
    if lo is not None and up is not None:
        if lo > 0:
            return math.exp(t.float(math.log(lo), math.log(up)))
        return t.float(lo, up)
    return t.float(-3.0, 3.0)


def case_fit(t):
    from syne_tune.optimizer.schedulers.searchers.bayesopt.gpautograd.gluon_blocks_helpers import PositiveScalarEncoding
    from syne_tune.optimizer.schedulers.searchers.bayesopt.gpautograd.gp_regression import GaussianProcessRegression
    from syne_tune.optimizer.schedulers.searchers.bayesopt.gpautograd.mean import ScalarMeanFunction, ZeroMeanFunction
    from syne_tune.optimizer.schedulers.searchers.bayesopt.gpautograd.optimization_utils import (
        ParamVecDictConverter,
        add_regularizer_to_criterion,
        create_lbfgs_arguments,
    )
    from syne_tune.optimizer.schedulers.searchers.bayesopt.gpautograd.target_transform import BoxCoxTargetTransform

    d = t.int(1, 3)
    n = t.int(2, 10)
    enc = t.weighted([(3, "logarithm"), (1, "positive")])
    kernel, _, klabel, din, _ = build_kernel(t, d, encoding_type=enc)
    boxcox = t.chance(1, 3)
    mean = ScalarMeanFunction() if t.bool() else ZeroMeanFunction()
    gpr = GaussianProcessRegression(kernel=kernel, mean=mean, target_transform=BoxCoxTargetTransform() if boxcox else None, random_seed=0)
    lik = gpr.likelihood
    Xl = gen_points(t, n, d)
    if "expdecay" in klabel:
        Xl = [x + [resource_value(t, klabel)] for x in Xl]
    X = np.array(Xl, dtype=float).reshape(n, din)
    if boxcox:
        Y = np.array([[math.exp(t.float(-3.0, 2.0))] for _ in range(n)])
    else:
        Y = np.array([[t.float(-2.0, 2.0)] for _ in range(n)])
    data = {"features": X, "targets": Y}
    # ---- parameter values inside the box
    shown = {}
    for param, encoding in lik.param_encoding_pairs():
        lo, up = encoding.constraints
        if isinstance(encoding, PositiveScalarEncoding):
            lo = encoding.lower
        special = ()
        if "boxcox" in param.name:
            special = (0.0, 1e-7, -1e-7, 1e-8, 1.0)
        vals = []
        for _ in range(param.shape[0]):
            v = _draw_value(t, lo, up, special)
            if isinstance(encoding, PositiveScalarEncoding):
                v = min(max(v, encoding.lower * (1 + 1e-6) + 1e-9), 500.0)  # softplus overflows above ~700
            vals.append(float(v))
        param.set_data(np.array([float(encoding.decode(v, param.name)) for v in vals]))
        shown[param.name] = vals
    obj, param_dict = create_lbfgs_arguments(lik, [data])
    conv = ParamVecDictConverter(param_dict)
    x0 = np.array(conv.to_vec(), dtype=float)
    ctx = f"kernel={klabel} encoding={enc} boxcox={boxcox} mean={type(mean).__name__} n={n} d={din} params={shown}"
    labels = {klabel, enc, "boxcox" if boxcox else "identity-transform"}
    try:
        val, grad = obj(x0.copy())
    except AssertionError as e:
        if "jitter" in str(e):
            return Result(sorted(labels) + ["cholesky-fails"], False, None)
        raise
    val = float(np.array(val).reshape(-1)[0])
    grad = np.array(grad, dtype=float).reshape(-1)

    def value(x):
        conv.from_vec(x)
        return float(np.array(add_regularizer_to_criterion(lik, [data])).reshape(-1)[0])

    v_alone = value(x0.copy())
    if not math.isfinite(v_alone):
        return Result(sorted(labels) + ["criterion-not-finite"], False, None)
    if abs(val - v_alone) > 1e-9 * max(1.0, abs(v_alone)):
        raise Violation("fit-value-differs", f"{ctx}: value with gradient {val!r}, value alone {v_alone!r}")
    if grad.shape != x0.shape or not np.all(np.isfinite(grad)):
        bad = [conv.names[k] for k in range(len(conv.names)) if not np.all(np.isfinite(grad[conv.name_to_index[conv.names[k]]]))] if grad.shape == x0.shape else "shape"
        raise Violation("fit-gradient-not-finite", f"{ctx}: criterion {val} is finite, gradient {grad.tolist()} (bad: {bad})")
    fscale = max(1.0, abs(val))
    Lf = np.array(lik.get_posterior_state(data).chol_fact)
    cond = float(np.linalg.cond(Lf)) ** 2
    f_noise = 20 * np.finfo(float).eps * cond * fscale
    labels.add("cond<1e6" if cond < 1e6 else "cond>=1e6")
    dirs = []
    idx = list(range(len(x0)))
    for i in (t.permutation(idx)[:4] if len(idx) > 4 else idx):
        e = np.zeros_like(x0)
        e[i] = 1.0
        dirs.append((f"coordinate {i}", e))
    dense = np.array([t.choice([-1.0, 1.0]) * t.float(0.2, 1.0) for _ in idx])
    dirs.append(("dense direction", dense / np.linalg.norm(dense)))
    n_ok = 0
    for name, e in dirs:
        ana = float(grad @ e)
        status, runs = check_derivative(lambda s: value(x0 + s * e), ana, h_max=0.05, fscale=fscale, f_noise=f_noise)
        if status == "mismatch":
            pname = ""
            if name.startswith("coordinate"):
                i = int(name.split()[1])
                pname = " = " + next(nm for nm in conv.names if i in conv.name_to_index[nm])
            raise Violation("fit-gradient-wrong", f"{ctx}: d criterion / d {name}{pname}: analytic {ana!r}, numerical {runs}")
        if status == "ok":
            n_ok += 1
        else:
            labels.add("inconclusive-direction")
    conv.from_vec(x0)
    labels.add("conclusive" if n_ok else "all-inconclusive")
    nt = len(x0) >= 4 and n_ok >= 1
    return Result(sorted(labels), nt, {"case": ctx[:600], "value": val, "gradient": grad.tolist()[:6]})


# ------------------------------------------------------------------ acquisition functions on GP predictors

ACQS = ["ei", "lcb", "eipu", "cei"]


def _ei_closed_form(means, std, best, jitter):
    from scipy.stats import norm

    means = np.asarray(means, dtype=float).reshape(-1)
    s = max(float(std), 1e-10)
    u = (np.asarray(best, dtype=float).reshape(-1) - means - jitter) / s
    return -float(np.mean(s * (u * norm.cdf(u) + norm.pdf(u))))


def _check_acq(acq, x, labels, ctx, name, h_cap=0.02, noise_scale=0.0, std_floor_hit=False):
    f_alone = float(np.array(acq.compute_acq(x.reshape(1, -1))).reshape(-1)[0])
    fval, grad = acq.compute_acq_with_gradient(x.copy())
    fval = float(fval)
    grad = np.array(grad, dtype=float).reshape(-1)
    if not math.isfinite(f_alone):
        labels.add("acq-not-finite")
        return 0
    if abs(fval - f_alone) > 1e-9 * max(abs(f_alone), 1e-300) + 1e-300:
        raise Violation(f"acq-value-differs:{name}", f"{ctx}: compute_acq {f_alone!r}, compute_acq_with_gradient {fval!r}")
    if grad.shape != x.shape or not np.all(np.isfinite(grad)):
        raise Violation(f"acq-gradient-not-finite:{name}", f"{ctx}: value {fval}, gradient {grad.tolist()}")
    h = min(h_cap, 0.9 * float(np.min(np.minimum(x, 1.0 - x))))
    n_ok = 0
    for i in range(len(x)):
        e = np.zeros_like(x)
        e[i] = 1.0
        status, runs = check_derivative(
            lambda s: float(np.array(acq.compute_acq((x + s * e).reshape(1, -1))).reshape(-1)[0]), float(grad[i]), h_max=h, fscale=max(abs(f_alone), 1e-12),
            f_noise=20 * np.finfo(float).eps * (abs(f_alone) + noise_scale),
        )
        if status == "mismatch":
            if std_floor_hit:
                # listed finding: get_quantiles replaces a predictive std below 1e-10 by 1e-10, the head gradients ignore that
                raise Violation("acq-gradient-wrong:std-below-the-1e-10-floor", f"{ctx}: x={x.tolist()} d/dx{i}: analytic {float(grad[i])!r}, numerical {runs}, value {f_alone!r}")
            raise Violation(f"acq-gradient-wrong:{name}", f"{ctx}: x={x.tolist()} d/dx{i}: analytic {float(grad[i])!r}, numerical {runs}, value {f_alone!r}")
        if status == "ok":
            n_ok += 1
        else:
            labels.add("inconclusive-direction")
    return n_ok


def case_acq_gp(t):
    from syne_tune.config_space import uniform
    from syne_tune.optimizer.schedulers.searchers.bayesopt.datatypes.common import INTERNAL_CONSTRAINT_NAME, INTERNAL_COST_NAME, INTERNAL_METRIC_NAME
    from syne_tune.optimizer.schedulers.searchers.bayesopt.gpautograd.gp_regression import GaussianProcessRegression
    from syne_tune.optimizer.schedulers.searchers.bayesopt.gpautograd.mean import ScalarMeanFunction
    from syne_tune.optimizer.schedulers.searchers.bayesopt.models.gp_model import GaussProcEmpiricalBayesEstimator
    from syne_tune.optimizer.schedulers.searchers.bayesopt.models.meanstd_acqfunc_impl import (
        CEIAcquisitionFunction,
        EIAcquisitionFunction,
        EIpuAcquisitionFunction,
        LCBAcquisitionFunction,
    )
    from syne_tune.optimizer.schedulers.searchers.bayesopt.utils.test_objects import create_tuning_job_state
    from syne_tune.optimizer.schedulers.searchers.utils.hp_ranges_factory import make_hyperparameter_ranges

    d = t.int(1, 3)
    n = t.int(2, 8)
    which = t.choice(ACQS)
    hp_ranges = make_hyperparameter_ranges({f"x{i}": uniform(0.0, 1.0) for i in range(d)})
    pts = set()
    while len(pts) < n:
        pts.add(tuple(round(t.float(0.0, 1.0), 6) for _ in range(d)))
        if len(pts) < n and t.dead:
            raise HarnessError("tape exhausted")
    pts = sorted(pts)
    npend = t.weighted([(2, 0), (2, 1), (2, 2), (1, 3)])
    pend = set()
    while len(pend) < npend:
        p = tuple(round(t.float(0.0, 1.0), 6) for _ in range(d))
        if p not in pts:
            pend.add(p)
        if t.dead:
            raise HarnessError("tape exhausted")
    pend = sorted(pend)
    nf = t.weighted([(1, 1), (2, 2), (2, 3), (1, 5)])
    secondary = {"eipu": INTERNAL_COST_NAME, "cei": INTERNAL_CONSTRAINT_NAME}.get(which)
    metrics = []
    for _ in pts:
        m = {INTERNAL_METRIC_NAME: t.float(-3.0, 3.0)}
        if which == "eipu":
            m[secondary] = math.exp(t.float(-2.0, 3.0))
        elif which == "cei":
            m[secondary] = t.float(-2.0, 2.0)
        metrics.append(m)
    state = create_tuning_job_state(hp_ranges=hp_ranges, cand_tuples=list(pts), metrics=metrics, pending_tuples=list(pend) if pend else None)
    normalize = t.bool()

    def make_predictor(metric, no_fantasizing=False):
        kernel, _, klabel, _, _ = build_kernel(t, d, kinds=("matern", "warped", "product"))
        kp = kernel.get_params()
        gpr = GaussianProcessRegression(kernel=kernel, mean=ScalarMeanFunction(), random_seed=t.int(0, 10**6))
        full = {"noise_variance": math.exp(t.float(math.log(1e-6), math.log(1.0))), "mean_mean_value": t.float(-1.0, 1.0)}
        full.update({"kernel_" + k_: v for k_, v in kp.items()})
        gpr.set_params(full)
        est = GaussProcEmpiricalBayesEstimator(gpmodel=gpr, num_fantasy_samples=nf, active_metric=metric, normalize_targets=normalize, no_fantasizing=no_fantasizing)
        return est.fit_from_state(state, update_params=False), klabel, full

    pred, klabel, full = make_predictor(INTERNAL_METRIC_NAME)
    labels = {which, klabel, f"pending-{len(pend)}", "normalized" if normalize else "raw-targets"}
    ctx = f"acq={which} d={d} observed={list(zip(pts, metrics))} pending={pend} fantasies={nf} normalize={normalize} model={full}"
    jitter = t.choice([0.01, 0.0, 0.1])
    if which == "ei":
        acq = EIAcquisitionFunction(pred, jitter=jitter)
    elif which == "lcb":
        kappa = t.float(0.1, 5.0)
        acq = LCBAcquisitionFunction(pred, kappa=kappa)
        ctx += f" kappa={kappa}"
    else:
        no_f = which == "eipu" and t.chance(1, 3)  # CEI asserts equal fantasy shapes of both models
        pred2, klabel2, full2 = make_predictor(secondary, no_fantasizing=no_f)
        ctx += f" secondary_model={full2} secondary_no_fantasizing={no_f}"
        if no_f:
            labels.add("secondary-without-fantasies")
        both = {INTERNAL_METRIC_NAME: pred, secondary: pred2}
        if which == "eipu":
            expo = t.choice([1.0, 0.5, 0.25])
            acq = EIpuAcquisitionFunction(both, active_metric=INTERNAL_METRIC_NAME, exponent_cost=expo, jitter=jitter)
            ctx += f" exponent_cost={expo}"
        else:
            acq = CEIAcquisitionFunction(both, active_metric=INTERNAL_METRIC_NAME, jitter=jitter)
    x = np.array([t.float(0.02, 0.98) for _ in range(d)])
    conds = [float(np.linalg.cond(np.array(p_.posterior_states[0].chol_fact))) ** 2 for p_ in ([pred] if which in ("ei", "lcb") else [pred, pred2])]
    ymax = max(abs(v) for m_ in metrics for v in m_.values())
    # first step of the numerical differentiation near the width of the narrowest feature (std / slope of the mean)
    width = 1.0
    floor_hit = False
    for p_ in ([pred] if which in ("ei", "lcb") else [pred, pred2]):
        s_x = float(np.array(p_.predict(x.reshape(1, -1))[0]["std"]).reshape(-1)[0])
        slope = 1e-12
        for i in range(d):
            e = np.zeros(d)
            e[i] = 1e-4
            dm = np.array(p_.predict((x + e).reshape(1, -1))[0]["mean"]).reshape(-1) - np.array(p_.predict((x - e).reshape(1, -1))[0]["mean"]).reshape(-1)
            slope = max(slope, float(np.max(np.abs(dm))) / 2e-4)
        width = min(width, s_x / slope)
        floor_hit = floor_hit or (which != "lcb" and p_ is pred and s_x < 1e-10)
    if floor_hit:
        labels.add("std-below-floor")
    n_ok = _check_acq(acq, x, labels, ctx, which, h_cap=min(0.02, max(3.0 * width, 1e-7)), noise_scale=max(conds) * (1.0 + ymax), std_floor_hit=floor_hit)
    if which == "ei":
        p = pred.predict(x.reshape(1, -1))[0]
        best = pred.current_best()[0]
        want = _ei_closed_form(np.array(p["mean"]).reshape(-1), float(np.array(p["std"]).reshape(-1)[0]), best, jitter)
        got = float(np.array(acq.compute_acq(x.reshape(1, -1))).reshape(-1)[0])
        if abs(got - want) > 1e-9 * abs(want) + 1e-300:
            raise Violation("ei-closed-form", f"{ctx}: x={x.tolist()}: compute_acq {got!r}, closed form {want!r}")
        if got > 0:
            raise Violation("ei-negative", f"{ctx}: x={x.tolist()}: minus EI = {got!r} > 0")
        # the incumbent is the minimum of the predictive means at observed and pending points, per fantasy
        allp = pred.predict(np.array(list(pts) + list(pend)))[0]["mean"]
        allp = np.array(allp).reshape(len(pts) + len(pend), -1)
        if not np.allclose(np.min(allp, axis=0), np.array(best).reshape(-1), rtol=1e-12, atol=1e-12):
            raise Violation("ei-incumbent", f"{ctx}: current_best {best}, minimum of means {np.min(allp, axis=0)}")
    nfant = nf if pend else 1
    if pend and nf > 1:
        labels.add("fantasies>1")
    labels.add("conclusive" if n_ok else "all-inconclusive")
    nt = n_ok >= 1 and ((pend and nf >= 2) or which in ("eipu", "cei"))
    return Result(sorted(labels), bool(nt), {"case": ctx[:700], "x": x.tolist()})


# ------------------------------------------------------------------ heads with a prescribed predictor


def _stub_class():
    from syne_tune.optimizer.schedulers.searchers.bayesopt.models.model_base import BasePredictor

    class StubPredictor(BasePredictor):
        """mean_j(x) = m_j + g_j . (x - x0) + 0.5 c_j |x - x0|^2 ; std(x) = s exp(q . (x - x0))"""

        def __init__(self, metric, x0, m, G, c, s, q, best, cand_means, flat_mean):
            super().__init__(None, metric)
            self.x0, self.m, self.G, self.c, self.s, self.q = x0, m, G, c, s, q
            self.best, self.cand_means, self.flat_mean = best, cand_means, flat_mean

        def _mean(self, X):
            D = X - self.x0.reshape(1, -1)
            return self.m.reshape(1, -1) + D @ self.G + 0.5 * np.sum(D * D, axis=1, keepdims=True) * self.c.reshape(1, -1)

        def _std(self, X):
            return self.s * np.exp((X - self.x0.reshape(1, -1)) @ self.q)

        def predict(self, inputs):
            mean = self._mean(inputs)
            if self.flat_mean:
                mean = mean.reshape(-1)
            return [{"mean": mean, "std": self._std(inputs)}]

        def current_best(self):
            return [self.best.copy()]

        def predict_mean_current_candidates(self):
            return [self.cand_means.copy()]

        def backward_gradient(self, input, head_gradients):
            hg = head_gradients[0]
            x = input.reshape(1, -1)
            dmean = self.G + (x - self.x0.reshape(1, -1)).T @ self.c.reshape(1, -1)  # (d, nf)
            g = dmean @ np.array(hg["mean"], dtype=float).reshape(-1)
            if "std" in hg:
                g = g + float(np.array(hg["std"]).reshape(-1)[0]) * float(self._std(x)[0]) * self.q
            return [g]

    return StubPredictor


def case_heads(t):
    from scipy.stats import norm

    from syne_tune.optimizer.schedulers.searchers.bayesopt.models.meanstd_acqfunc_impl import (
        CEIAcquisitionFunction,
        EIAcquisitionFunction,
        EIpuAcquisitionFunction,
        LCBAcquisitionFunction,
    )

    Stub = _stub_class()
    which = t.choice(ACQS)
    d = t.int(1, 3)
    nf = t.weighted([(2, 1), (2, 2), (1, 3), (1, 5)])
    x0 = np.array([t.float(0.1, 0.9) for _ in range(d)])
    jitter = t.choice([0.01, 0.0, 0.1])

    def make(metric, nf_, positive=False, allow_nonpositive=False):
        s = math.exp(t.float(math.log(1e-6), math.log(10.0)))
        if positive:
            m = np.array([math.exp(t.float(-6.0, 3.0)) for _ in range(nf_)])
            if allow_nonpositive and t.chance(1, 6):
                m[t.index(nf_)] = t.choice([0.0, -0.5, 1e-13])
        else:
            m = np.array([t.float(-5.0, 5.0) for _ in range(nf_)])
        G = np.array([[t.float(-2.0, 2.0) for _ in range(nf_)] for _ in range(d)]) * (m.reshape(1, -1) if positive else 1.0)
        c = np.array([t.float(-1.0, 1.0) for _ in range(nf_)]) * (np.abs(m) if positive else 1.0)
        q = np.array([t.float(-2.0, 2.0) for _ in range(d)])
        return metric, m, G, c, s, q

    metric, m, G, c, s, q = make("target", nf)
    # incumbent placed so that u = (best - mean - jitter) / std covers -40 .. 40
    us = np.array([t.weighted([(4, None), (1, -40.0), (1, 40.0), (1, 0.0), (1, -8.0)]) for _ in range(nf)], dtype=object)
    us = np.array([t.float(-6.0, 6.0) if u is None else u for u in us], dtype=float)
    best = m + jitter + us * s
    flat = nf == 1 and t.bool()
    ctx = f"acq={which} d={d} nf={nf} x0={x0.tolist()} mean={m.tolist()} G={G.tolist()} curv={c.tolist()} std={s} q={q.tolist()} u={us.tolist()} jitter={jitter}"
    labels = {which, f"nf-{nf}"}
    cand_means = np.vstack([best.reshape(1, -1), best.reshape(1, -1) + 1.0])
    if which == "cei":
        # feasible-best per fantasy is derived by CEI from candidate means of both models
        nf2 = nf if t.bool() else 1
        _, m2, G2, c2, s2, q2 = make("constraint", nf2)
        cand_c = np.array([[t.float(-1.0, 1.0) for _ in range(nf2)] for _ in range(2)])
        infeasible = t.chance(1, 4)
        if infeasible:
            cand_c = np.abs(cand_c) + 0.1
            labels.add("no-feasible-candidate")
        else:
            cand_c[0, :] = -np.abs(cand_c[0, :]) - 0.1
        if nf2 != nf:
            cand_c = np.repeat(cand_c, nf, axis=1) if nf2 == 1 else cand_c
            nf2_eff = nf
            m2, G2, c2 = np.repeat(m2, nf), np.repeat(G2, nf, axis=1), np.repeat(c2, nf)
        p1 = Stub("target", x0, m, G, c, s, q, best, cand_means, False)
        p2 = Stub("constraint", x0, m2, G2, c2, s2, q2, None, cand_c, False)
        acq = CEIAcquisitionFunction({"target": p1, "constraint": p2}, active_metric="target", jitter=jitter)
        ctx += f" constraint: mean={m2.tolist()} std={s2} cand_constraint={cand_c.tolist()}"
    elif which == "eipu":
        nf2 = nf if t.bool() else 1
        _, m2, G2, c2, s2, q2 = make("cost", nf2, positive=True, allow_nonpositive=True)
        if np.any(m2 <= 1e-12):
            labels.add("non-positive-cost")
        p1 = Stub("target", x0, m, G, c, s, q, best, cand_means, flat)
        p2 = Stub("cost", x0, m2, G2, c2, s2, q2, None, None, nf2 == 1 and t.bool())
        expo = t.choice([1.0, 0.5, 0.25])
        acq = EIpuAcquisitionFunction({"target": p1, "cost": p2}, active_metric="target", exponent_cost=expo, jitter=jitter)
        ctx += f" cost: mean={m2.tolist()} G={G2.tolist()} exponent={expo}"
    elif which == "ei":
        p1 = Stub("target", x0, m, G, c, s, q, best, cand_means, flat)
        acq = EIAcquisitionFunction(p1, jitter=jitter)
    else:
        p1 = Stub("target", x0, m, G, c, s, q, best, cand_means, flat)
        kappa = math.exp(t.float(math.log(0.05), math.log(20.0)))
        acq = LCBAcquisitionFunction(p1, kappa=kappa)
        ctx += f" kappa={kappa}"
    x = x0.copy()
    if t.bool():
        x = np.clip(x0 + np.array([t.float(-0.05, 0.05) for _ in range(d)]), 0.03, 0.97)
    got = float(np.array(acq.compute_acq(x.reshape(1, -1))).reshape(-1)[0])
    mean_x = p1._mean(x.reshape(1, -1)).reshape(-1)
    std_x = float(p1._std(x.reshape(1, -1))[0])
    umax = float(np.max(np.abs(us)))
    # round-off of one evaluation: cancellation in u Phi(u) + phi(u) (~ u^2 eps |f|) and the error of u itself, eps (|best| + |mean|) / s,
    # which enters through |df/du| = s Phi(u)
    Phi_max = float(norm.cdf(float(np.max(us)) + 1.0))
    noise_scale = umax**2 * abs(got) + Phi_max * (float(np.max(np.abs(m))) + float(np.max(np.abs(best)))) + (kappa * s + float(np.max(np.abs(m))) if which == "lcb" else 0.0)
    # first step of the numerical differentiation near the width of the narrowest feature (std / slope of the mean)
    slope = float(np.max(np.abs(G))) + float(np.max(np.abs(c))) * 0.1 + abs(float(np.max(np.abs(q)))) * std_x + 1e-12
    width = std_x / slope
    if which == "cei":
        width = min(width, float(p2._std(x.reshape(1, -1))[0]) / (float(np.max(np.abs(G2))) + 1e-12))
    n_ok = _check_acq(acq, x, labels, ctx, which + "-head", h_cap=min(0.01, max(3.0 * width, 1e-7)), noise_scale=noise_scale)
    if which == "ei":
        want = _ei_closed_form(mean_x, std_x, best, jitter)
        if abs(got - want) > 1e-9 * abs(want) + 1e-300:
            raise Violation("ei-closed-form", f"{ctx}: x={x.tolist()}: compute_acq {got!r}, closed form {want!r}")
        if got > 0:
            raise Violation("ei-negative", f"{ctx}: x={x.tolist()}: minus EI = {got!r} > 0")
    elif which == "lcb":
        want = float(np.mean(mean_x) - kappa * std_x)
        if abs(got - want) > 1e-12 * (float(np.max(np.abs(mean_x))) + kappa * std_x) + 1e-300:
            raise Violation("lcb-closed-form", f"{ctx}: compute_acq {got!r}, mean - kappa std = {want!r}")
    elif got > 0:
        raise Violation(f"{which}-negative", f"{ctx}: x={x.tolist()}: minus acquisition value {got!r} > 0")
    # a call with an overriding predictor uses that predictor's incumbent and leaves the object's own results unchanged
    if which != "lcb" and t.chance(1, 3):
        shift = t.choice([0.5, -0.5, 2.0]) * s
        pB = Stub("target", x0, m, G, c, s, q, best + shift, cand_means + shift, flat if which != "cei" else False)
        if which == "ei":
            over = pB
        elif which == "eipu":
            over = {"target": pB, "cost": p2}
        else:
            over = {"target": pB, "constraint": p2}
        v_over = float(np.array(acq.compute_acq(x.reshape(1, -1), predictor=over)).reshape(-1)[0])
        if which == "ei":
            want_over = _ei_closed_form(mean_x, std_x, best + shift, jitter)
            if abs(v_over - want_over) > 1e-9 * abs(want_over) + 1e-300:
                raise Violation("ei-closed-form:override-predictor", f"{ctx}: x={x.tolist()}: compute_acq(predictor=B) {v_over!r}, closed form with B's incumbent {want_over!r}")
        v_own = float(np.array(acq.compute_acq(x.reshape(1, -1))).reshape(-1)[0])
        fv2, _ = acq.compute_acq_with_gradient(x.copy())
        if abs(v_own - got) > 1e-12 * abs(got) + 1e-300 or abs(float(fv2) - got) > 1e-9 * abs(got) + 1e-300:
            raise Violation(f"acq-value-changes-after-override:{which}", f"{ctx}: x={x.tolist()}: value {got!r} before, {v_own!r} / {float(fv2)!r} after a call with predictor=B (incumbent shifted by {shift})")
        labels.add("override-predictor")
    if np.max(np.abs(us)) >= 8:
        labels.add("extreme-u")
    labels.add("conclusive" if n_ok else "all-inconclusive")
    nt = n_ok >= 1 and (nf >= 2 or which in ("eipu", "cei"))
    return Result(sorted(labels), bool(nt), {"case": ctx[:700], "x": x.tolist()})


SUBCHECKS = {
    "fit": {"fn": case_fit, "quick": 3200, "thorough": 80000, "required": ["boxcox", "positive", "warped-2", "expdecay", "product", "conclusive"]},
    "acq-gp": {"fn": case_acq_gp, "quick": 3200, "thorough": 80000, "required": ACQS + ["fantasies>1", "secondary-without-fantasies", "conclusive"]},
    "heads": {"fn": case_heads, "quick": 16000, "thorough": 400000, "required": ACQS + ["extreme-u", "no-feasible-candidate", "non-positive-cost", "conclusive", "override-predictor"]},
}
