"""C17 — the results log and the reported best configuration reflect what happened."""
import math
import os

from harness import driver_scripted as ds
from harness import driver_sim, gen_sched, sim_case
from harness.tape import HarnessError, Result, Violation
from checks.c02 import brief

PROPERTY = "C17"
LEVEL = "exploration"
RULE = (
    "Real Tuner over the scripted file back-end (1-3 metrics with per-metric modes, NaN / +-inf / string / bool metric values, ties, "
    "trials without results, failing scripts, mid-batch skipped results) and in the simulator (resumed trials whose configuration "
    "changed through max_resource_attr, all model-free schedulers), results_update_interval 0 or huge. Oracle: the results table has "
    "exactly one row per scheduler.on_trial_result call, in order, with the result's values, trial_id, every config_<k> of the trial's "
    "configuration at delivery time, the decision and a tuner time stamp; the CSV read back equals the in-memory table (1e-12 relative, "
    "NaN==NaN); Tuner.best_config names a trial whose own optimum equals the optimum (per mode) over all values handed to the loop; "
    "load_experiment().best_config attains the optimum over the table's rows; per-trial and overall min/max/sum/count equal Python's "
    "over the handed values. Non-trivial = >= 2 trials, >= 5 rows and a tie, a NaN, a mid-batch skipped result or >= 2 metrics with "
    "different modes; distinct = distinct choice tape."
)
ASSUMPTIONS = [
    "min/max statistics ignore NaN, sums propagate it (what Python's min/max/sum do on the stored-first argument order the class documents)",
    "non-numeric metric values are generated for an auxiliary metric only (schedulers compare the target metric numerically)",
]


def same(a, b, rel=0.0):
    if isinstance(a, float) and isinstance(b, float):
        if math.isnan(a) or math.isnan(b):
            return math.isnan(a) and math.isnan(b)
        if rel and math.isfinite(a) and math.isfinite(b):
            return abs(a - b) <= rel * max(abs(a), abs(b))
        return a == b
    try:
        import numpy as np

        if isinstance(a, (np.floating, np.integer, np.bool_)):
            a = a.item()
        if isinstance(b, (np.floating, np.integer, np.bool_)):
            b = b.item()
    except Exception:
        pass
    if isinstance(a, float) or isinstance(b, float):
        try:
            return same(float(a), float(b), rel)
        except Exception:
            return False
    return a == b


def check_rows(run, store, labels):
    delivered = [e for e in run.events if e["kind"] == "sched.result"]
    rows = store.results
    if len(rows) != len(delivered):
        raise Violation("row-count", f"{len(rows)} rows, {len(delivered)} results delivered to the scheduler")
    for i, (row, e) in enumerate(zip(rows, delivered)):
        if row.get("trial_id") != e["trial_id"]:
            raise Violation("row-order-or-trial", f"row {i}: trial_id {row.get('trial_id')} vs delivered trial {e['trial_id']}")
        for k, v in e["result"].items():
            if k not in row or not same(row[k], v):
                raise Violation("row-value", f"row {i}: {k}={row.get(k)!r}, delivered {v!r}")
        for k, v in e["config"].items():
            if f"config_{k}" not in row or not same(row[f"config_{k}"], v):
                raise Violation("row-config", f"row {i} (trial {e['trial_id']}): config_{k}={row.get('config_' + k)!r}, configuration at delivery {k}={v!r}")
        if row.get("st_decision") != e["decision"]:
            raise Violation("row-decision", f"row {i}: st_decision={row.get('st_decision')!r}, scheduler returned {e['decision']!r}")
        if "st_tuner_time" not in row or not isinstance(row["st_tuner_time"], (int, float)):
            raise Violation("row-time-stamp", f"row {i}: {row.get('st_tuner_time')!r}")
    return delivered


def check_csv(run, store, labels):
    import pandas as pd

    path = os.path.join(str(run.tuner.tuner_path), "results.csv.zip")
    if not store.results:
        return
    if not os.path.exists(path):
        raise Violation("csv-missing", path)
    mem = pd.DataFrame(store.results)
    disk = pd.read_csv(path)
    if list(mem.columns) != list(disk.columns) or len(mem) != len(disk):
        raise Violation("csv-shape", f"memory {list(mem.columns)} x {len(mem)} vs file {list(disk.columns)} x {len(disk)}")
    for col in mem.columns:
        for i in range(len(mem)):
            a, b = mem[col].iloc[i], disk[col].iloc[i]
            if isinstance(a, str) or isinstance(b, str):
                # text columns: missing values are written as empty cells
                if (isinstance(a, float) and math.isnan(a)) and (isinstance(b, float) and math.isnan(b)):
                    continue
                sa, sb = str(a), str(b)
                try:
                    if same(float(a), float(b), rel=1e-12):
                        continue  # text that looks like a number is typed as a number by the CSV reader
                except Exception:
                    pass
                if sa != sb:
                    raise Violation("csv-value", f"column {col} row {i}: memory {a!r}, file {b!r}")
                continue
            try:
                fa, fb = float(a), float(b)
            except Exception:
                if str(a) != str(b):
                    raise Violation("csv-value", f"column {col} row {i}: memory {a!r}, file {b!r}")
                continue
            if not same(fa, fb, rel=1e-12):
                raise Violation("csv-value", f"column {col} row {i}: memory {a!r}, file {b!r}")


def handed_values(run):
    out = []
    for e in run.events:
        if e["kind"] == "fetch":
            for tid, r in e["results"]:
                out.append((tid, r))
    return out


def numeric(v):
    return isinstance(v, (int, float)) and not isinstance(v, str)


def check_statistics(run, labels):
    st = run.tuner.tuning_status
    handed = handed_values(run)
    per = {}
    for tid, r in handed:
        per.setdefault(tid, []).append(r)

    def stats_of(results):
        names = {}
        first_type = {}
        for r in results:
            for k, v in r.items():
                if k not in first_type:
                    first_type[k] = numeric(v)
                if first_type[k] and numeric(v):
                    names.setdefault(k, []).append(v)
                elif first_type[k] and not numeric(v):
                    first_type[k] = "mixed"
        return names, first_type, len(results)

    def compare(ms, results, who):
        names, first_type, cnt = stats_of(results)
        if ms.count != cnt:
            raise Violation("statistics-count", f"{who}: count {ms.count}, {cnt} results handed to the loop")
        for k, vals in names.items():
            if first_type[k] == "mixed":
                continue  # numeric and non-numeric values for one metric: the class only warns
            clean = [float(v) for v in vals if not (isinstance(v, float) and math.isnan(v))]
            want_min = min(clean) if clean else math.inf
            want_max = max(clean) if clean else -math.inf
            want_sum = 0
            for v in vals:
                want_sum = want_sum + v
            if not same(float(ms.min_metrics.get(k, math.inf)), float(want_min)):
                raise Violation("statistics-min", f"{who} metric {k}: min {ms.min_metrics.get(k)!r}, values {vals}")
            if not same(float(ms.max_metrics.get(k, -math.inf)), float(want_max)):
                raise Violation("statistics-max", f"{who} metric {k}: max {ms.max_metrics.get(k)!r}, values {vals}")
            if not same(float(ms.sum_metrics.get(k, 0)), float(want_sum), rel=1e-12):
                raise Violation("statistics-sum", f"{who} metric {k}: sum {ms.sum_metrics.get(k)!r}, values {vals}")

    compare(st.overall_metric_statistics, [r for _, r in handed], "overall")
    for tid, results in per.items():
        compare(st.trial_metric_statistics[tid], results, f"trial {tid}")
    return per


def check_best(run, metric_names, modes, per, store, labels, tuner_name):
    from syne_tune.experiments import load_experiment

    if not per:
        return
    for mi, (m, mode) in enumerate(zip(metric_names, modes)):
        vals = {tid: [r[m] for r in rs if m in r and numeric(r[m]) and not (isinstance(r[m], float) and math.isnan(r[m]))] for tid, rs in per.items()}
        allv = [v for vs in vals.values() for v in vs]
        if not allv:
            continue
        if any(m in r and not numeric(r[m]) for rs in per.values() for r in rs):
            continue
        opt = min(allv) if mode == "min" else max(allv)
        if opt == (math.inf if mode == "min" else -math.inf):
            continue  # every value is the worst possible one: no trial is better than a trial without values
        arg = mi if run.tape_bool() else m
        try:
            tid, config = run.tuner.best_config(metric=arg)
        except Exception as e:
            raise Violation(f"best_config-raises:{type(e).__name__}", f"metric {arg!r}: {e}")
        own = vals.get(tid, [])
        own_opt = (min(own) if mode == "min" else max(own)) if own else None
        if own_opt is None or own_opt != opt:
            raise Violation(
                "tuner-best-config-not-optimal",
                f"metric {m} mode {mode}: best_config returned trial {tid} whose optimum is {own_opt}, overall optimum {opt} attained by {[t for t, vs in vals.items() if opt in vs]}; values {vals}",
            )
        labels.add("best-config-checked")
        # loaded experiment: optimum over the rows of the table
        rows = [r for r in store.results if m in r and numeric(r[m]) and not (isinstance(r[m], float) and math.isnan(r[m]))]
        if rows and all((m not in r) or numeric(r[m]) for r in store.results):
            exp = load_experiment(tuner_name, download_if_not_found=False)
            if exp.results is None:
                raise Violation("load-experiment-no-results", tuner_name)
            try:
                best = exp.best_config(metric=arg)
            except Exception as e:
                raise Violation(f"experiment-best_config-raises:{type(e).__name__}", f"metric {arg!r}: {e}")
            ropt = min(r[m] for r in rows) if mode == "min" else max(r[m] for r in rows)
            if not same(float(best.get(m, float("nan"))), float(ropt), rel=1e-12):
                raise Violation("experiment-best-config-not-optimal", f"metric {m} mode {mode}: returned row has {m}={best.get(m)!r}, optimum over rows {ropt!r}")
            labels.add("experiment-best-checked")


def case_scripted(t):
    from syne_tune import StoppingCriterion
    from syne_tune.config_space import uniform
    from syne_tune.optimizer.schedulers import FIFOScheduler
    from syne_tune.optimizer.schedulers.multiobjective.moasha import MOASHA

    n_workers = t.int(1, 3)
    n_metrics = t.weighted([(2, 1), (2, 2), (1, 3)])
    metric_names = ["loss", "acc", "size"][:n_metrics]
    modes = [t.choice(["min", "max"]) for _ in metric_names]
    max_t = t.int(1, 5)
    cs = {"x": uniform(0.0, 1.0), "y": uniform(0.0, 1.0)}
    if n_metrics == 1:
        fam = t.choice(["fifo", "hb-stopping"])
        if fam == "fifo":
            sched = FIFOScheduler(cs, metric="loss", mode=modes[0], searcher="random", random_seed=t.int(0, 1000))
        else:
            spec = gen_sched.gen_sched(t, cs, mode=modes[0], max_t=max(max_t, 2), families=["hb-stopping", "median"])
            max_t = max(max_t, 2)
            sched = spec.build()
            fam = spec.family
    else:
        fam = "moasha"
        sched = MOASHA(cs, metrics=metric_names, mode=modes, time_attr="epoch", max_t=max(max_t, 2), grace_period=1, reduction_factor=2)
        max_t = max(max_t, 2)
    weird_target = fam == "fifo" and t.chance(1, 2)
    ties = t.chance(1, 3)
    labels = {fam, f"metrics-{n_metrics}"}
    curve = {}

    def value(kind):
        if kind == "target":
            if weird_target:
                c = t.weighted([(6, "num"), (2, "nan"), (1, "inf"), (1, "-inf")])
                if c == "nan":
                    labels.add("nan")
                    return float("nan")
                if c == "inf":
                    return float("inf")
                if c == "-inf":
                    return float("-inf")
            return float(t.int(0, 3)) if ties else t.float(0.0, 1.0)
        c = t.weighted([(4, "num"), (1, "nan"), (1, "str"), (1, "bool"), (1, "int")])
        if c == "num":
            return t.float(-5.0, 5.0)
        if c == "nan":
            labels.add("nan")
            return float("nan")
        if c == "str":
            labels.add("string-value")
            return t.choice(["ok", "relu", "1.5", "nan"])  # (an empty string is an empty CSV cell: not representable)
        if c == "bool":
            return t.bool()
        return t.int(-3, 3)

    def script_fn(trial_id, run_index, config, paused_level):
        n = t.int(0, max_t) if t.chance(1, 6) else max_t
        lines = []
        for lv in range(1, n + 1):
            d = {"epoch": lv}
            for m in metric_names:
                d[m] = value("target")
            if t.chance(1, 2):
                d["aux"] = value("aux")
            lines.append(d)
        code = 1 if (n < max_t or t.chance(1, 8)) else 0
        if n == 0:
            labels.add("trial-without-results")
        return lines, code

    crit = StoppingCriterion(max_num_trials_started=t.int(1, 6), max_num_evaluations=40)
    interval = t.choice([1e9, 0.0])

    class R:
        pass

    run = ds.run_scripted(t, sched, script_fn, n_workers, crit, allow_late_lines=True, max_failures=100, results_update_interval=interval)
    run.tape_bool = t.bool
    if run.exception is not None and not run.loop_guard:
        e = run.exception
        import traceback

        tb = "".join(traceback.format_exception(type(e), e, e.__traceback__))[-700:]
        if isinstance(e, ValueError) and "no metrics got observed" in str(e):
            return Result(sorted(labels) + ["completed-without-metrics"], False, None)
        raise Violation(f"run-raises:{type(e).__name__}", f"{fam} metrics={metric_names} modes={modes}: {tb}")
    store = run.store
    delivered = check_rows(run, store, labels)
    check_csv(run, store, labels)
    per = check_statistics(run, labels)
    check_best(run, metric_names, modes, per, store, labels, run.tuner.name)
    n_trials = len({e["trial_id"] for e in delivered})
    handed = handed_values(run)
    skipped = len(handed) > len(delivered)
    if skipped:
        labels.add("mid-batch-skipped-result")
    if ties:
        labels.add("ties")
    diff_modes = n_metrics >= 2 and len(set(modes)) > 1
    if diff_modes:
        labels.add("different-modes")
    nt = n_trials >= 2 and len(delivered) >= 5 and (ties or "nan" in labels or skipped or diff_modes)
    return Result(sorted(labels), nt, {"scheduler": fam, "metrics": metric_names, "modes": modes, "events": brief(run, 30)})


def case_sim(t):
    ctx = sim_case.gen_case(t, criterion="any")
    run = sim_case.run_case(t, ctx, )
    run.tape_bool = t.bool
    labels = {ctx.spec.family, "mra" if ctx.use_mra else "no-mra"}
    if run.exception is not None and not run.loop_guard:
        e = run.exception
        raise Violation(f"run-raises:{type(e).__name__}:{ctx.spec.family}", f"{sim_case.describe(ctx)}: {type(e).__name__}: {e}")
    store = run.sim_callback
    delivered = check_rows(run, store, labels)
    check_csv(run, store, labels)
    per = check_statistics(run, labels)
    sched = run.scheduler
    names = sched.metric_names()
    mode = sched.metric_mode()
    modes = mode if isinstance(mode, list) else [mode] * len(names)
    check_best(run, names, modes, per, store, labels, run.tuner.name)
    # did a trial's configuration change between two of its rows?
    changed = False
    seen = {}
    for e in delivered:
        c = tuple(sorted((k, str(v)) for k, v in e["config"].items()))
        if e["trial_id"] in seen and seen[e["trial_id"]] != c:
            changed = True
        seen[e["trial_id"]] = c
    if changed:
        labels.add("config-changed-on-resume")
    n_trials = len(seen)
    ties = "ties" in ctx.table.labels
    nt = n_trials >= 2 and len(delivered) >= 5 and (ties or changed or len(set(modes)) > 1)
    return Result(sorted(labels), nt, {"case": sim_case.describe(ctx), "events": sim_case.brief_events(run, 30)})


SUBCHECKS = {
    "scripted": {"fn": case_scripted, "quick": 8000, "thorough": 150000, "required": ["nan", "string-value", "ties", "different-modes", "mid-batch-skipped-result", "trial-without-results", "best-config-checked", "experiment-best-checked"]},
    "sim": {"fn": case_sim, "quick": 6000, "thorough": 120000, "required": ["config-changed-on-resume", "best-config-checked", "experiment-best-checked"]},
}
