"""C10 — simulated experiments replay the benchmark table faithfully in values and time."""
from harness import sim_case
from harness.tape import HarnessError, Result, Violation

PROPERTY = "C10"
LEVEL = "exploration"
RULE = (
    "Real Tuner + UserBlackboxBackend(BlackboxTabular) on Hypothesis-generated tables (2-3 hyper-parameters, 1-3 seeds, 2-8 "
    "fidelities, monotone / noisy non-monotone / tiny / huge elapsed-time columns, ties or general position), generated simulator "
    "delays, tuner_sleep_time relative to the table's time scale, n_workers 1-4, checkpointing on/off, with/without max_resource_attr, "
    "back-end seed fixed or drawn per trial, every model-free scheduler family (stop / pause / resume patterns), harness-owned wall "
    "clock with tape-drawn time spent outside the back-end. Oracle: ref_sim recomputes from the table and the observed start/resume "
    "events what each run must report: exact metric values for (configuration, seed, level), consecutive levels from 1 or paused+1, one "
    "seed per trial, st_tuner_time = run start + delay_start + repaired elapsed (rebased at the resume point) + delay_on_trial_result; "
    "simulated clock monotone; each sleep advances it by exactly tuner_sleep_time. Non-trivial = a run with >= 1 resume or stop; "
    "distinct = distinct choice tape."
)
ASSUMPTIONS = [
    "the wall clock seen by the time keeper / tuner / status / results callback is a harness clock (otherwise real elapsed time is added to simulated time)",
    "with seed=None and several seeds the per-trial seed is inferred from the reported values (tables in general position)",
]


def _close(a, b):
    return abs(a - b) <= 1e-9 * max(1.0, abs(a), abs(b))


def oracle(ctx):
    run = ctx.run
    tb = ctx.table
    runs = sim_case.analyse(ctx)
    cur = {}
    handed = {}
    labels = set()
    last_t = None
    last_t_src = None

    def see_time(tv, src):
        nonlocal last_t, last_t_src
        if tv is None:
            return
        if last_t is not None and tv < last_t - 1e-12:
            raise Violation("simulated-time-decreases", f"{last_t_src}: {last_t} -> {src}: {tv}")
        last_t, last_t_src = tv, src

    for e in run.events:
        k = e["kind"]
        if k in ("be.start", "be.resume"):
            tid = e["trial_id"]
            lst = runs.get(tid, [])
            idx = sum(1 for x in lst if x.event["i"] <= e["i"]) - 1
            cur[tid] = lst[idx]
            see_time(e.get("t_call"), f"{k} call")
            see_time(e.get("t_ret"), f"{k} return")
        elif k in ("be.pause", "be.stop"):
            see_time(e.get("t_call"), f"{k} call")
            see_time(e.get("t_ret"), f"{k} return")
        elif k == "sleep":
            before = last_t
            see_time(e.get("t"), "sleep")
            if before is not None and not _close(e["t"] - before, run.tuner_sleep_time):
                raise Violation("sleep-not-charged-once", f"clock {before} -> {e['t']} across one sleep, tuner_sleep_time={run.tuner_sleep_time}")
            labels.add("sleep")
        elif k == "fetch":
            see_time(e.get("t_call"), "fetch call")
            see_time(e.get("t_ret"), "fetch return")
            for tid, res in e["results"]:
                ri = cur.get(tid)
                if ri is None:
                    raise Violation("result-for-unknown-trial", f"trial {tid}")
                handed.setdefault((tid, ri.index), []).append(res)
        elif k in ("loop_start", "loop_end"):
            see_time(e.get("t"), k)
    nontrivial = False
    n_checked = 0
    for tid, lst in runs.items():
        # seeds consistent with everything the trial reported
        if any(ri.expected is None and ri.config_index is None for ri in lst):
            raise Violation("config-not-in-table", f"trial {tid}: {[ri.config for ri in lst]}")
        if ctx.backend_seed is not None:
            seeds = [ctx.backend_seed]
        else:
            seeds = list(range(tb.num_seeds))
        ok_seeds = []
        why = None
        best_progress = -1
        for seed in seeds:
            good = True
            progress = 0
            why_seed = None
            for ri in lst:
                exp = sim_case.expected_for_seed(ctx, ri, seed)
                got = handed.get((tid, ri.index), [])
                if len(got) > len(exp):
                    good = False
                    why_seed = why_seed or ("more-results-than-levels", f"trial {tid} run {ri.index}: {len(got)} results, run covers levels {ri.first_level}..{ri.max_level}")
                    break
                for g, x in zip(got, exp):
                    lv = g.get(tb.resource_attr)
                    if lv != x["level"]:
                        good = False
                        why_seed = why_seed or (
                            "levels-not-consecutive",
                            f"trial {tid} run {ri.index} (resumed_from={ri.resumed_from}, checkpointing={ctx.checkpointing}): levels {[r.get(tb.resource_attr) for r in got]}, expected {[y['level'] for y in exp[:len(got)]]}",
                        )
                        break
                    for name, val in x["values"].items():
                        if g.get(name) != val:
                            good = False
                            why_seed = why_seed or ("value-not-from-table", f"trial {tid} run {ri.index} level {lv} seed {seed}: {name}={g.get(name)!r}, table {val!r}")
                            break
                    if not good:
                        break
                    progress += 1
                    if not _close(g.get("st_tuner_time", float("nan")), x["time"]):
                        good = False
                        why_seed = why_seed or (
                            "time-stamp",
                            f"trial {tid} run {ri.index} level {lv}: st_tuner_time={g.get('st_tuner_time')!r}, expected run start {ri.t_start} + delay_start {run.sim_config['delay_start']} + elapsed {x['elapsed']} + delay_on_trial_result {run.sim_config['delay_on_trial_result']} = {x['time']!r} (resumed_from={ri.resumed_from})",
                        )
                        break
                if not good:
                    break
            if good:
                ok_seeds.append(seed)
            elif progress > best_progress:
                best_progress, why = progress, why_seed
        if not ok_seeds:
            kind, detail = why or ("no-consistent-seed", f"trial {tid}")
            if ctx.backend_seed is None and tb.num_seeds > 1 and kind == "value-not-from-table":
                kind = "seed-changes-or-value-not-from-table"
            raise Violation(kind, detail + f" | case={sim_case.describe(ctx)['scheduler']} time={[l for l in tb.labels if l.startswith('time')]}")
        for ri in lst:
            n_checked += len(handed.get((tid, ri.index), []))
        if len(lst) > 1:
            nontrivial = True
            labels.add("resume")
            if not ctx.checkpointing:
                labels.add("resume-without-checkpointing")
    if any(e["kind"] == "be.stop" for e in run.events):
        nontrivial = True
        labels.add("stop")
    if any(e["kind"] == "be.pause" for e in run.events):
        labels.add("pause")
    labels.add(f"rows-{'0' if n_checked == 0 else '1-9' if n_checked < 10 else '10+'}")
    return labels, nontrivial


def case(t):
    ctx = sim_case.gen_case(t, criterion="any", backend_seed_modes=("fixed", "fixed", "per-trial"))
    run = sim_case.run_case(t, ctx)
    if run.exception is not None and not run.loop_guard:
        e = run.exception
        raise Violation(f"run-raises:{type(e).__name__}", f"{sim_case.describe(ctx)}: {type(e).__name__}: {e}")
    labels, nontrivial = oracle(ctx)
    labels |= {ctx.spec.family, "checkpointing" if ctx.checkpointing else "no-checkpointing", "mra" if ctx.use_mra else "no-mra"}
    labels |= set(ctx.table.labels)
    if ctx.backend_seed is None:
        labels.add("seed-per-trial")
    if run.loop_guard:
        labels.add("loop-guard")
    return Result(sorted(labels), nontrivial, {"case": sim_case.describe(ctx), "events": sim_case.brief_events(run, 40)})


SUBCHECKS = {
    "sim": {
        "fn": case,
        "quick": 20000,
        "thorough": 300000,
        "required": ["resume", "stop", "resume-without-checkpointing", "time-noisy", "seed-per-trial", "sleep"],
    },
}
