"""C18 — metrics reported by a training script arrive unchanged at the tuner."""
import io
import math
import os
import sys
import tempfile

import numpy as np

from harness.tape import HarnessError, Result, Violation

PROPERTY = "C18"
LEVEL = "exploration"
RULE = (
    "Hypothesis-generated scripts: sequences of 0..12 Reporter calls (keys: arbitrary unicode not starting with st_; "
    "values: JSON trees with NaN/inf/-0.0/huge ints/hostile strings containing braces, brackets, quotes, back-slashes, "
    "newlines, U+2028, lone surrogates and the metric tag itself; numpy scalars of all dtypes), interleaved with noise "
    "chunks that do not contain the tag (with/without trailing newline, ending in '{', '}' or a partial tag) and with "
    "reports that must be rejected (st_ keys, unserialisable values, dictionaries with keys JSON cannot encode, oversize). The captured stream is written to a file and "
    "read with readlines() as LocalBackend does; oracle: retrieve() == the accepted reports, in order, structurally equal "
    "(NaN==NaN, float bit-equality, bool!=int), counter strictly increasing, time stamps non-decreasing. "
    "Non-trivial = >=2 accepted reports, >=1 noise chunk and >=1 hostile string; distinct = distinct choice tape."
)
ASSUMPTIONS = [
    "time()/perf_counter() seen by syne_tune.report are replaced by a harness clock with tape-chosen non-negative increments",
    "noise is valid unicode and never contains the text '[tune-metric]' (a forged tag is a report by definition)",
    "nested dict keys are strings and sequences are lists (JSON-native), as the property's 'JSON-serialisable dictionaries' says",
]

TAG = "[tune-metric]"
PIECES = ["{", "}", "[", "]", '"', "\\", "\n", "\r", " ", "\ud800", TAG + ": ", TAG + ': {"a": 1}', "é", "😀", "\x00", "\t", " ", "'", "}}", "\\n", "null", ": {"]
NOISE_PIECES = ["{", "}", "[", "]", '"', "\\", "\n", "\r\n", " ", "[tune-metric", "tune-metric]: {", "é", "😀", "\t", " ", "loss=0.5", "Epoch 1/10", "{'a': 1}", "]: {\"x\": 1}", "[tune-metri", "\n\n"]
NP_FLOAT = [np.float64, np.float32, np.float16]
NP_INT = [np.int8, np.int16, np.int32, np.int64, np.uint8, np.uint16, np.uint32, np.uint64]


def gen_string(t, hostile_flag):
    n = t.weighted([(3, 1), (2, 0), (2, 2), (1, 4), (1, 7)])
    out = []
    for _ in range(n):
        k = t.weighted([(3, "piece"), (2, "ascii"), (1, "any")])
        if k == "piece":
            out.append(PIECES[t.index(len(PIECES))])
            hostile_flag[0] = True
        elif k == "ascii":
            out.append(chr(t.int(32, 126)))
        else:
            c = t.int(0, 0x10FFFF)
            if 0xDC00 <= c <= 0xDFFF:
                # a high surrogate followed by a low one is one code point in
                # JSON: not a value JSON can carry unchanged
                c = 0xD7FF
            out.append(chr(c))
    return "".join(out)


def gen_key(t, hostile_flag):
    k = t.weighted([(4, "ident"), (2, "str")])
    if k == "ident":
        return t.choice(["loss", "epoch", "accuracy", "x", "val_acc", "s", "st", "_st_", "step", "St_x"])
    s = gen_string(t, hostile_flag)
    if s.startswith("st_"):
        s = "x" + s
    return s


def gen_float(t):
    return t.weighted(
        [
            (3, 0.5),
            (1, float("nan")),
            (1, float("inf")),
            (1, float("-inf")),
            (1, -0.0),
            (1, 5e-324),
            (1, 1.7976931348623157e308),
            (1, 0.1),
            (1, 1e-7),
            (4, None),
        ]
    )


def gen_value(t, hostile_flag, depth=0, top=False):
    """Returns (reported_value, expected_plain_value)."""
    opts = [(3, "float"), (3, "int"), (2, "str"), (1, "bool"), (2, "npfloat"), (2, "npint"), (1, "npbool"), (1, "npstr")]
    if depth < 2:
        opts += [(2, "list"), (2, "dict")]
    if not top:
        opts.append((1, "none"))
    k = t.weighted(opts)
    if k == "float":
        v = gen_float(t)
        if v is None:
            v = t.float(-1e6, 1e6)
        return v, v
    if k == "int":
        v = t.weighted([(2, 0), (2, 1), (1, -1), (1, 2**64), (1, -(2**64)), (1, 2**53 + 1), (3, None)])
        if v is None:
            v = t.int(-10**6, 10**6)
        return v, v
    if k == "str":
        s = gen_string(t, hostile_flag)
        return s, s
    if k == "bool":
        b = t.bool()
        return b, b
    if k == "none":
        return None, None
    if k == "npfloat":
        tp = t.choice(NP_FLOAT)
        v = gen_float(t)
        if v is None:
            v = t.float(-1e4, 1e4)
        with np.errstate(all="ignore"):
            x = tp(v)
        return x, x.item()
    if k == "npint":
        tp = t.choice(NP_INT)
        info = np.iinfo(tp)
        c = t.weighted([(2, 0), (1, "min"), (1, "max"), (2, None)])
        if c == "min":
            v = int(info.min)
        elif c == "max":
            v = int(info.max)
        elif c is None:
            v = t.int(max(int(info.min), -1000), min(int(info.max), 1000))
        else:
            v = 0
        x = tp(v)
        return x, x.item()
    if k == "npbool":
        b = t.bool()
        return np.bool_(b), b
    if k == "npstr":
        s = gen_string(t, hostile_flag)
        return np.str_(s), s
    if k == "list":
        n = t.int(0, 3)
        items = [gen_value(t, hostile_flag, depth + 1) for _ in range(n)]
        return [a for a, _ in items], [b for _, b in items]
    if k == "dict":
        n = t.int(0, 3)
        a, b = {}, {}
        for _ in range(n):
            key = gen_key(t, hostile_flag)
            x, y = gen_value(t, hostile_flag, depth + 1)
            a[key], b[key] = x, y
        return a, b
    raise HarnessError(k)


def gen_noise(t):
    n = t.int(1, 5)
    out = []
    for _ in range(n):
        k = t.weighted([(3, "piece"), (2, "ascii"), (1, "any")])
        if k == "piece":
            out.append(NOISE_PIECES[t.index(len(NOISE_PIECES))])
        elif k == "ascii":
            out.append(chr(t.int(32, 126)))
        else:
            c = t.int(1, 0x10FFFF)
            if 0xD800 <= c <= 0xDFFF:
                c = 0x41
            out.append(chr(c))
    s = "".join(out)
    if t.bool():
        s += "\n"
    # never a forged tag
    while TAG in s:
        s = s.replace(TAG, "[tune_metric]")
    return s


def struct_eq(a, b):
    if isinstance(a, bool) or isinstance(b, bool):
        return type(a) is type(b) and a == b
    if isinstance(a, float) or isinstance(b, float):
        if not (isinstance(a, float) and isinstance(b, float)):
            return False
        if math.isnan(a) or math.isnan(b):
            return math.isnan(a) and math.isnan(b)
        return a == b and math.copysign(1.0, a) == math.copysign(1.0, b)
    if isinstance(a, int) or isinstance(b, int):
        return type(a) is int and type(b) is int and a == b
    if isinstance(a, str) or isinstance(b, str):
        return isinstance(a, str) and isinstance(b, str) and a == b
    if a is None or b is None:
        return a is None and b is None
    if isinstance(a, list) or isinstance(b, list):
        return isinstance(a, list) and isinstance(b, list) and len(a) == len(b) and all(struct_eq(x, y) for x, y in zip(a, b))
    if isinstance(a, dict) or isinstance(b, dict):
        return isinstance(a, dict) and isinstance(b, dict) and list(a) == list(b) and all(struct_eq(a[k], b[k]) for k in a)
    return False


class _Clock:
    def __init__(self):
        self.now = 1.7e9
        self.perf = 100.0


_TMP = None


def _tmpfile():
    global _TMP
    if _TMP is None or _TMP[0] != os.getpid():
        fd, p = tempfile.mkstemp(prefix="verif_c18_")
        os.close(fd)
        import atexit

        atexit.register(lambda p=p: os.path.exists(p) and os.remove(p))
        _TMP = (os.getpid(), p)
    return _TMP[1]


def _repr(v):
    r = repr(v)
    return r if len(r) < 300 else r[:300] + "..."


def case_stream(t):
    import syne_tune.report as rep

    clock = _Clock()
    hostile = [False]
    add_time = not t.chance(1, 4)
    n_items = t.int(0, 12)
    buf = io.StringIO()
    expected = []
    n_noise = 0
    n_rejected = 0
    script = []
    old_time, old_perf = rep.time, rep.perf_counter
    old_stdout = sys.stdout

    def fake_time():
        return clock.now

    def fake_perf():
        return clock.perf

    rep.time, rep.perf_counter = fake_time, fake_perf
    try:
        sys.stdout = buf
        try:
            reporter = rep.Reporter(add_time=add_time)
        except Exception as e:
            raise Violation("reporter-constructor-raises", f"add_time={add_time}: {type(e).__name__}: {e}")
        for _ in range(n_items):
            kind = t.weighted([(6, "report"), (3, "noise"), (2, "reject")])
            dt = t.weighted([(3, 0.0), (2, 0.001), (1, 3.5)])
            clock.now += dt
            clock.perf += dt
            if kind == "noise":
                s = gen_noise(t)
                tail = buf.getvalue()[-len(TAG):]
                while TAG in tail + s:  # never a forged tag, also not across chunks
                    s = " " + s.replace(TAG, "[tune_metric]")
                buf.write(s)
                n_noise += 1
                script.append({"noise": s})
                continue
            nk = t.int(1, 4)
            kw, exp = {}, {}
            for _k in range(nk):
                key = gen_key(t, hostile)
                a, b = gen_value(t, hostile, top=True)
                kw[key], exp[key] = a, b
            if kind == "report":
                pos = buf.tell()
                try:
                    reporter(**kw)
                except Exception as e:
                    tag = "add_time=False" if not add_time else "add_time=True"
                    raise Violation(
                        f"valid-report-raises:{type(e).__name__}:{tag}",
                        f"report({_repr(kw)}): {type(e).__name__}: {e}",
                    )
                expected.append(exp)
                script.append({"report": _repr(kw)})
            else:
                why = t.choice(["st_key", "set", "object", "bytes", "complex", "nested-set", "oversize", "none", "tuple-key", "numpy-int-key", "bytes-key"])
                if why == "st_key":
                    kw["st_" + t.choice(["x", "worker_iter", "decision", ""])] = 1.0
                elif why == "set":
                    kw["bad"] = {1, 2}
                elif why == "object":
                    kw["bad"] = object()
                elif why == "bytes":
                    kw["bad"] = b"abc"
                elif why == "complex":
                    kw["bad"] = np.complex64(1 + 2j)
                elif why == "nested-set":
                    kw["bad"] = {"a": [1, {2, 3}]}
                elif why == "none":
                    kw["bad"] = None
                elif why == "tuple-key":
                    kw["bad"] = {"counts": {(0, 1): 2, "a": 1}}
                elif why == "numpy-int-key":
                    kw["bad"] = {np.int64(3): 1, np.int64(4): 2}
                elif why == "bytes-key":
                    kw["bad"] = {b"a": 1}
                else:
                    kw["bad"] = "x" * (50000 - t.int(0, 40))
                before = buf.getvalue()
                try:
                    reporter(**kw)
                    raised = False
                except (AssertionError, TypeError, ValueError):
                    raised = True
                after = buf.getvalue()
                if TAG in after[len(before):]:
                    raise Violation(f"rejectable-report-on-stream:{why}", f"report({_repr(kw)}) wrote {after[len(before):][:300]!r}")
                if not raised:
                    raise Violation(f"rejectable-report-accepted:{why}", f"report({_repr(kw)}) did not raise")
                n_rejected += 1
                script.append({"rejected": why})
        if t.bool() and not buf.getvalue().endswith("\n"):
            pass
    finally:
        sys.stdout = old_stdout
        rep.time, rep.perf_counter = old_time, old_perf
    text = buf.getvalue()
    # the stream as LocalBackend sees it: file written by the script, read back with readlines()
    path = _tmpfile()
    with open(path, "w", encoding="utf-8", errors="surrogatepass", newline="") as f:
        f.write(text)
    with open(path, "r", encoding="utf-8", errors="surrogatepass") as f:
        lines = f.readlines()
    try:
        got = rep.retrieve(lines)
    except Exception as e:
        raise Violation(f"retrieve-raises:{type(e).__name__}", f"{type(e).__name__}: {e}; stream={text[:500]!r}")
    if len(got) != len(expected):
        raise Violation("report-count", f"{len(got)} parsed, {len(expected)} reported; stream={text[:600]!r}")
    last_iter = None
    last_ts = None
    for i, (g, e) in enumerate(zip(got, expected)):
        user = {k: v for k, v in g.items() if not k.startswith("st_")}
        if not struct_eq(user, e):
            raise Violation("report-changed", f"#{i}: reported {_repr(e)} parsed {_repr(user)}")
        it = g.get("st_worker_iter")
        ts = g.get("st_worker_timestamp")
        if type(it) is not int or (last_iter is not None and not it > last_iter):
            raise Violation("counter-not-increasing", f"#{i}: {last_iter} -> {it!r}")
        if not isinstance(ts, float) or (last_ts is not None and ts < last_ts):
            raise Violation("timestamp-decreasing", f"#{i}: {last_ts} -> {ts!r}")
        if add_time and not isinstance(g.get("st_worker_time"), float):
            raise Violation("worker-time-missing", f"#{i}: {g}")
        last_iter, last_ts = it, ts
    labels = [f"reports-{min(len(expected), 3)}{'+' if len(expected) >= 3 else ''}"]
    if n_noise:
        labels.append("noise")
    if hostile[0]:
        labels.append("hostile-string")
    if n_rejected:
        labels.append("rejected")
    if not add_time:
        labels.append("add_time-off")
    nontrivial = len(expected) >= 2 and n_noise >= 1 and hostile[0]
    return Result(labels, nontrivial, {"add_time": add_time, "script": script[:8], "stream_head": text[:300]})


def case_serialize(t):
    """_serialize_report_dict + retrieve directly (what scripted back-ends and
    the simulator-free tests use): one line per dict, arbitrary line grouping."""
    import syne_tune.report as rep

    hostile = [False]
    n = t.int(1, 6)
    lines = []
    expected = []
    cur = ""
    for _ in range(n):
        if t.chance(1, 3):
            s = gen_noise(t)
            while TAG in cur[-len(TAG):] + s:
                s = " " + s.replace(TAG, "[tune_metric]")
            cur += s
        nk = t.int(1, 3)
        kw, exp = {}, {}
        for _k in range(nk):
            key = gen_key(t, hostile)
            a, b = gen_value(t, hostile, top=False)
            kw[key], exp[key] = a, b
        try:
            s = rep._serialize_report_dict(kw)
        except Exception as e:
            raise Violation(f"valid-report-raises:{type(e).__name__}:serialize", f"{_repr(kw)}: {e}")
        cur += f"{TAG}: {s}\n"
        expected.append(exp)
    lines = cur.splitlines(keepends=True) if t.bool() else [x + "\n" for x in cur.split("\n")]
    if not t.bool():
        lines = [x.rstrip("\n") for x in lines] if all("\r" not in x for x in lines) else lines
    try:
        got = rep.retrieve(lines)
    except Exception as e:
        raise Violation(f"retrieve-raises:{type(e).__name__}", f"{type(e).__name__}: {e}; lines={[x[:120] for x in lines[:6]]}")
    if len(got) != len(expected) or not all(struct_eq(g, e) for g, e in zip(got, expected)):
        raise Violation("serialize-roundtrip", f"reported {_repr(expected)} parsed {_repr(got)}")
    return Result(["hostile-string"] if hostile[0] else [], n >= 2 and hostile[0], {"lines": [x[:200] for x in lines[:4]]})


SUBCHECKS = {
    "stream": {"fn": case_stream, "quick": 60000, "thorough": 1500000, "required": ["noise", "hostile-string", "rejected", "add_time-off"]},
    "serialize": {"fn": case_serialize, "quick": 20000, "thorough": 400000, "required": ["hostile-string"]},
}
