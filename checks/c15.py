"""C15 — minimising f and maximising -f are the same experiment."""
import copy

from harness import driver_protocol as dp
from harness import driver_sim, gen_sched, gen_tables, sim_case
from harness.ref_promotion import RefPromotion
from harness.ref_stopping import RefStopping, ref_rung_levels
from harness.tape import HarnessError, Result, Tape, Violation

PROPERTY = "C15"
LEVEL = "exploration"
RULE = (
    "Paired executions in lockstep: scheduler A (mode=min, metric f) and scheduler B (mode=max, metric -f), same constructor arguments "
    "and seeds, driven by the protocol driver with the same tape-chosen event (suggest / report of trial i / failure) at every step, for "
    "FIFO random/grid, all Hyperband variants (stopping, promotion, PASHA, cost-aware), synchronous Hyperband, DEHB, PBT, regularised "
    "evolution, median rule, and MOASHA with per-metric mode lists (max-mode columns negated); plus whole simulated Tuner runs (table f "
    "vs table -f) compared on the delivery history, decisions and Tuner.best_config. Metric values are in general position by construction "
    "(all distinct); a pair in which the documented quantile cut-off of a Hyperband rung is within round-off of a metric value is dropped "
    "and counted (the property's own caveat), detected with the C03/C04 reference models. Oracle: identical suggestions (kind, trial, "
    "configuration), identical decisions, identical best trial. Non-trivial = the trace contains >= 1 STOP / PAUSE / promotion; distinct = distinct choice tape."
)
ASSUMPTIONS = [
    "searchers whose suggestions depend on floating-point model fits (GP) are outside the property's quantifier",
    "pairs with a rung cut-off within round-off of a metric value are excluded, as the property states",
]

FAMILIES = ["fifo-random", "fifo-grid", "hb-stopping", "hb-promotion", "hb-pasha", "hb-cost", "hb-rush-stopping", "hb-rush-promotion", "sync-hb", "dehb", "pbt", "median", "rea", "moasha"]


def flip_spec(spec):
    s = copy.deepcopy(spec)
    kw = s.kwargs
    if s.family == "moasha":
        kw["mode"] = ["max" if m == "min" else "min" for m in kw["mode"]]
    elif s.family == "median":
        kw["inner"]["mode"] = "max"
    else:
        kw["mode"] = "max"
    return s


def case_protocol(t):
    from syne_tune.config_space import choice, randint, uniform

    fam = t.choice(FAMILIES)
    max_t = t.weighted([(2, 9), (2, 4), (1, 8), (2, None)])
    if max_t is None:
        max_t = t.int(2, 12)
    use_mra = t.bool() if fam in ("hb-promotion", "hb-pasha", "hb-cost", "hb-rush-promotion", "sync-hb", "dehb") else False
    if fam == "fifo-grid":
        cs = {"x": choice(["a", "b", "c"]), "y": randint(0, 3)}
    else:
        cs = {"x": uniform(0.0, 1.0), "y": randint(0, 5)}
    n_workers = t.int(1, 4)
    spec = gen_sched.gen_sched(
        t, cs, mode="min", max_t=max_t, max_resource_attr="epochs" if use_mra else None, families=[fam], second_metric="acc", cost_attr="cost", n_workers=n_workers
    )
    fam = spec.family  # (PASHA falls back to promotion when fewer than two rung levels exist)
    specB = flip_spec(spec)
    A = spec.build()
    B = specB.build()
    tkA, tkB = dp.make_time_keeper(), dp.make_time_keeper()
    for s_, tk in ((A, tkA), (B, tkB)):
        inner = getattr(s_, "scheduler", s_)
        if hasattr(inner, "set_time_keeper"):
            inner.set_time_keeper(tk)
    curve = {}
    counter = [0]

    def value():
        counter[0] += 1
        return (t.int(0, 999) * 4096 + counter[0]) / 4096000.0

    def result_A(tid, config, level):
        key = (tid, level)
        if key not in curve:
            curve[key] = {"loss": value(), "acc": value(), "cost": float(t.int(1, 5))}
        return dict(curve[key])

    def result_B(tid, config, level):
        r = curve[(tid, level)]
        return {"loss": -r["loss"], "acc": -r["acc"], "cost": r["cost"]}

    def cap(config):
        return int(config["epochs"]) if use_mra and "epochs" in config else max_t

    pause_resume = spec.pause_resume
    checkpointing = not t.chance(1, 3)
    allow_fail = (t.chance(1, 4) and fam != "dehb") or (fam == "sync-hb" and t.chance(1, 2))
    # scripts which skip levels / end on their own (only where the scheduler documents that it copes: stopping-type rules)
    loose = fam in ("moasha", "hb-stopping", "median") and t.chance(1, 3)
    kwargs = dict(level_cap_fn=cap, n_workers=n_workers, max_trials=t.int(2, 10), max_steps=t.weighted([(3, 40), (2, 80)]), checkpointing=checkpointing, allow_fail=allow_fail,
                  sparse_reports=loose, early_complete=loose)
    dA = dp.ProtocolDriver(A, t, result_A, time_keeper=tkA, **kwargs)
    dB = dp.ProtocolDriver(B, None, result_B, time_keeper=tkB, **kwargs)
    # reference models only to detect the excluded 'threshold within round-off of a value' pairs
    ref = None
    hb = fam.startswith("hb-")
    if hb:
        kw = spec.kwargs
        levels = ref_rung_levels(kw.get("rung_levels"), kw.get("grace_period", 1), kw.get("reduction_factor"), kw.get("rung_increment"), max_t)
        br = kw.get("brackets", 1)
        pb = kw.get("rung_system_per_bracket", False)
        rush_n = (kw.get("rung_system_kwargs") or {}).get("num_threshold_candidates", 0)
        if fam in ("hb-stopping", "hb-rush-stopping"):
            ref = RefStopping(levels, max_t, "min", br, pb, rush_candidates=rush_n if fam == "hb-rush-stopping" else 0)
        else:
            ref = RefPromotion(levels, max_t, "min", br, pb, variant={"hb-promotion": "promotion", "hb-pasha": "pasha", "hb-cost": "cost_promotion", "hb-rush-promotion": "rush_promotion"}[fam], rush_candidates=rush_n)
    bracket_of = {}
    labels = {fam} | ({"sparse-and-early-ending-scripts"} if loose else set())
    nontrivial = False
    step = 0
    while True:
        step += 1
        pos = len(t.log)
        amb = False
        if ref is not None and isinstance(ref, RefPromotion) and "suggest" in dA.enabled():
            cap_now = A.terminator._rung_systems[0].current_max_t if fam == "hb-pasha" else None
            for sys_id in range(len(ref.systems)):
                _, a_ = ref.allowed_outcomes(sys_id, cap=cap_now)
                amb = amb or a_
        import random as _random

        import numpy as _np

        # schedulers without a random_seed argument (MOASHA) draw from the global
        # generators: both twins see the same global state at every step
        g0, p0 = _np.random.get_state(), _random.getstate()
        try:
            evA = dA.step()
        except Violation as v:
            if v.kind == "resume-of-non-paused-trial" and fam == "sync-hb" and dA.n_fails > 0:
                # fewer valid entries than slots: a failed trial is promoted (C05 / C13 judge that); end of this pair
                return Result(sorted(labels) + ["failed-trial-promoted"], nontrivial, None)
            raise
        if evA is None:
            break
        dB.t = Tape(log=t.log[pos:])
        _np.random.set_state(g0)
        _random.setstate(p0)
        try:
            evB = dB.step()
        except Violation as v:
            raise Violation("twin-diverges:" + v.kind, f"{spec.describe()}: max-mode twin: {v.detail}")
        if evB is None:
            raise Violation("twin-diverges:ends-early", f"{spec.describe()}: max-mode twin has no enabled step where the min-mode twin did {evA}")
        # tie detection for Hyperband
        if ref is not None and evA.op == "suggest" and evA.kind == "start":
            bracket_of[evA.trial_id] = A.terminator._task_info.get(str(evA.trial_id), 0)
        dropped = False
        if ref is not None:
            if isinstance(ref, RefStopping) and evA.op == "report":
                _, info = ref.on_report(str(evA.trial_id), bracket_of.get(evA.trial_id, 0), evA.level, evA.result["loss"])
                dropped = bool(info.get("tie"))
            elif isinstance(ref, RefPromotion):
                if evA.op == "suggest":
                    dropped = amb and (evA.kind != evB.kind or evA.trial_id != evB.trial_id)
                    if amb:
                        labels.add("cutoff-near-value-at-suggest")
                    if evA.kind == "resume":
                        ref.apply_resume(ref.system_of(bracket_of.get(evA.trial_id, 0)), str(evA.trial_id), evA.resume_from)
                elif evA.op == "report" and evA.decision == "PAUSE":
                    tot = sum(curve[(evA.trial_id, l)]["cost"] for l in range(1, evA.level + 1))
                    ref.register(str(evA.trial_id), bracket_of.get(evA.trial_id, 0), evA.level, evA.result["loss"], tot)
        if dropped and (evA.get("decision") != evB.get("decision") or evA.get("kind") != evB.get("kind") or evA.get("trial_id") != evB.get("trial_id")):
            return Result(sorted(labels) + ["dropped-cutoff-within-roundoff"], False, None)
        # compare the two events
        same = evA.op == evB.op and evA.get("kind") == evB.get("kind") and evA.get("trial_id") == evB.get("trial_id") and evA.get("decision") == evB.get("decision")
        if same and evA.op == "suggest" and evA.get("config") is not None:
            ca = {k: v for k, v in evA.config.items()}
            cb = {k: v for k, v in (evB.config or {}).items()}
            same = ca == cb
        if not same:
            what = "decision" if evA.op == "report" else "suggestion"
            raise Violation(
                f"min-max-asymmetry:{fam}:{what}",
                f"{spec.describe()} step {step}: min/f -> {dict(evA)} ; max/-f -> {dict(evB)} ; last events {[(e.op, e.get('kind'), e.get('trial_id'), e.get('level'), e.get('decision')) for e in dA.trace[-8:]]}",
            )
        if evA.get("decision") in ("STOP", "PAUSE") or evA.get("kind") == "resume":
            nontrivial = True
    if dA.n_resumes:
        labels.add("promotion")
    if dA.n_stops:
        labels.add("stop")
    if dA.n_fails:
        labels.add("failure")
    return Result(
        sorted(labels),
        nontrivial,
        {"scheduler": spec.describe(), "events": [(e.op, e.get("kind"), e.get("trial_id"), e.get("level"), e.get("decision")) for e in dA.trace[:40]]},
    )


def case_sim(t):
    import numpy as np

    fams = ["fifo-random", "fifo-grid", "sync-hb", "pbt", "median", "rea", "dehb"]
    ctx = sim_case.gen_case(t, families=fams, criterion="simple", ties=False, flags=False)
    ctx.spec.kwargs  # mode generated by gen_sched; force min for A
    specA = copy.deepcopy(ctx.spec)
    if specA.family == "median":
        specA.kwargs["inner"]["mode"] = "min"
    else:
        specA.kwargs["mode"] = "min"
    specB = flip_spec(specA)
    ctx.spec = specA
    pos = len(t.log)
    runA = sim_case.run_case(t, ctx, outside_time=False)
    draws = t.log[pos:]
    # the negated table
    tbA = ctx.table
    tbB = copy.copy(tbA)
    dataB = tbA.data.copy()
    for oi, on in enumerate(tbA.objectives):
        if on in ("loss", "acc"):
            dataB[:, :, :, oi] = -dataB[:, :, :, oi]
    tbB.data = dataB
    from syne_tune.blackbox_repository.blackbox_tabular import BlackboxTabular

    tbB.blackbox = BlackboxTabular(
        hyperparameters=tbA.blackbox.hyperparameters,
        configuration_space=tbA.config_space,
        fidelity_space=tbA.blackbox.fidelity_space,
        objectives_evaluations=dataB,
        objectives_names=list(tbA.objectives),
    )
    ctxB = copy.copy(ctx)
    ctxB.table = tbB
    ctxB.spec = specB
    tB = Tape(log=draws)
    runB = driver_sim.run_simulation(
        tB, tbB, specB, n_workers=ctx.n_workers, stop_criterion=ctx.crit, support_checkpointing=ctx.checkpointing, backend_seed=ctx.backend_seed,
        use_mra=ctx.use_mra, tuner_flags=ctx.flags, outside_time=False,
    )
    labels = {specA.family}
    for r, nm in ((runA, "min"), (runB, "max")):
        if r.exception is not None and not r.loop_guard:
            e = r.exception
            raise Violation(f"run-raises:{type(e).__name__}:{specA.family}", f"{nm} twin: {type(e).__name__}: {e}")
    ha = [(e["trial_id"], e["result"].get("epoch"), e["decision"]) for e in runA.events if e["kind"] == "sched.result"]
    hb = [(e["trial_id"], e["result"].get("epoch"), e["decision"]) for e in runB.events if e["kind"] == "sched.result"]
    if ha != hb:
        k = next((i for i, (a, b) in enumerate(zip(ha, hb)) if a != b), min(len(ha), len(hb)))
        raise Violation(f"min-max-asymmetry:{specA.family}:sim-history", f"{specA.describe()}: histories differ at delivery {k}: min {ha[max(0, k - 3):k + 2]} max {hb[max(0, k - 3):k + 2]}")
    sa = [(e["ret"], e.get("checkpoint_trial_id"), None if e.get("config") is None else sorted((k, str(v)) for k, v in e["config"].items() if k not in ("elapsed_time",))) for e in runA.events if e["kind"] == "sched.suggest"]
    sb = [(e["ret"], e.get("checkpoint_trial_id"), None if e.get("config") is None else sorted((k, str(v)) for k, v in e["config"].items() if k not in ("elapsed_time",))) for e in runB.events if e["kind"] == "sched.suggest"]
    if sa != sb:
        k = next((i for i, (a, b) in enumerate(zip(sa, sb)) if a != b), min(len(sa), len(sb)))
        raise Violation(f"min-max-asymmetry:{specA.family}:sim-suggestions", f"{specA.describe()}: suggestion {k}: min {sa[k] if k < len(sa) else None} max {sb[k] if k < len(sb) else None}")
    if ha:
        ba = runA.tuner.best_config()
        bb = runB.tuner.best_config()
        if ba[0] != bb[0] or ba[1] != bb[1]:
            raise Violation(f"min-max-asymmetry:best-config", f"{specA.describe()}: min {ba} max {bb}")
        labels.add("best-config-compared")
    nt = any(d in ("STOP", "PAUSE") for _, _, d in ha)
    return Result(sorted(labels), nt, {"scheduler": specA.describe(), "history": ha[:30]})


SUBCHECKS = {
    "protocol": {"fn": case_protocol, "quick": 16000, "thorough": 300000, "required": FAMILIES + ["promotion", "stop"]},
    "sim": {"fn": case_sim, "quick": 3000, "thorough": 60000, "required": ["best-config-compared", "pbt", "sync-hb"]},
}
