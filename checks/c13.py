"""C13 — trial failures are contained."""
import copy

from harness import driver_protocol as dp
from harness import driver_scripted as ds
from harness import gen_sched, lifecycle
from harness.tape import HarnessError, Result, Violation
from checks.c02 import brief, make_script_fn

PROPERTY = "C13"
LEVEL = "fault_enumeration"
RULE = (
    "(protocol) every scheduler / searcher family (FIFO random, grid, GP; Hyperband stopping / promotion with random and GP "
    "multi-fidelity searchers; synchronous Hyperband; DEHB; PBT; regularised evolution; median rule) driven by the protocol driver with "
    "on_trial_error injected at any point of a trial's life (before the first report, between reports, right after a resume), for any "
    "subset of trials. Oracle: no scheduler call raises after a failure; a failed trial is never resumed; a no-repeat searcher never "
    "suggests the failed configuration again; the book-keeping of the other trials is unchanged by on_trial_error (pending evaluations "
    "in the GP searcher state, rung entries, pending bracket slots before == after). (tuner) real Tuner over the scripted back-end with "
    "non-zero exit codes at any line and trials stopped from outside (stop file written between polls), max_failures 0..5: exactly one "
    "on_trial_error per failed / externally stopped run (life-cycle grammar), more than max_failures failures make run() raise an error "
    "naming a trial that failed. (fault-enumeration) for each of the 10 model-free families, 2 deterministic schedules, 2 seeds, 2 worker counts: "
    "every set of <= 2 (thorough <= 3) failure placements on the grid (trial 0..3 / 0..4) x (about to deliver its j-th report, j = 0..3 / 0..4, "
    "counted over the trial's whole life, so placements after a resume are included), same oracle. Non-trivial = >= 1 failure and >= 3 further events involving other trials; distinct = distinct choice tape."
)
ASSUMPTIONS = [
    "decisions for the other trials after a failure are also re-checked by the C03 / C04 / C05 reference models in those checks' own generators",
    "fault enumeration is complete for the stated small scope only (<= 2 / <= 3 failures on a 4x4 / 5x5 grid of (trial, report index) in two deterministic schedules per scheduler family); everything larger is generated",
]

GP_OPTS = {"num_init_random": 2, "opt_nstarts": 1, "opt_maxiter": 3, "num_init_candidates": 6, "debug_log": False, "opt_skip_init_length": 50}
FAMILIES = ["fifo-random", "fifo-grid", "hb-stopping", "hb-promotion", "hb-pasha", "sync-hb", "dehb", "pbt", "rea", "median"]
GP_FAMILIES = ["fifo-bo", "hb-bo-stopping", "hb-bo-promotion"]


def snapshot_others(sched, fam, failed_tid):
    """Book-keeping of all trials except ``failed_tid`` (read-only access to the state the property anchors)."""
    snap = {}
    inner = getattr(sched, "scheduler", sched)
    searcher = getattr(inner, "searcher", None)
    st = getattr(getattr(searcher, "state_transformer", None), "state", None)
    if st is not None:
        snap["pending"] = sorted((p.trial_id, str(getattr(p, "resource", None))) for p in st.pending_evaluations if str(p.trial_id) != str(failed_tid))
        snap["observed"] = sorted((e.trial_id, tuple(sorted(e.metrics.items(), key=str)).__repr__()) for e in st.trials_evaluations if str(e.trial_id) != str(failed_tid))
    term = getattr(inner, "terminator", None)
    if term is not None:
        rs = getattr(term, "_rung_systems", [])
        snap["rungs"] = [
            [(r.level, sorted((e.trial_id, e.metric_val, getattr(e, "was_promoted", None)) for e in r.data if str(e.trial_id) != str(failed_tid))) for r in s._rungs] for s in rs
        ]
        snap["running"] = [sorted((k, str(v)) for k, v in getattr(s, "_running", {}).items() if str(k) != str(failed_tid)) for s in rs]
    slots = getattr(inner, "_trial_to_pending_slot", None)
    if slots is not None:
        snap["slots"] = sorted(str(k) for k in slots if str(k) != str(failed_tid))
    return snap


def build(t, fam, max_t, use_mra, n_workers):
    from syne_tune.config_space import choice, randint, uniform

    # searchers which may repeat configurations still document that configurations of failed trials are avoided
    dup = fam in ("fifo-random", "hb-stopping", "hb-promotion", "fifo-bo", "hb-bo-stopping", "hb-bo-promotion") and t.chance(1, 4)
    if fam == "fifo-grid":
        cs = {"x": choice(["a", "b", "c"]), "y": randint(0, 3)}
    elif dup:
        cs = {"x": choice(["a", "b"]), "y": randint(0, 2)}
    elif fam in GP_FAMILIES or t.bool():
        cs = {"x": uniform(0.0, 1.0), "y": randint(0, 3)}
    else:
        cs = {"x": choice(["a", "b", "c"]), "y": randint(0, 2)}
    if fam in GP_FAMILIES:
        base = dict(metric="loss", mode=t.choice(["min", "max"]), random_seed=t.int(0, 10**6), searcher="bayesopt", search_options=dict(GP_OPTS, **({"allow_duplicates": True} if dup else {})))
        if fam == "fifo-bo":
            spec = gen_sched.SchedSpec(fam, "FIFOScheduler", base, dict(cs))
        else:
            typ = "stopping" if fam.endswith("stopping") else "promotion"
            kw = dict(base, type=typ, resource_attr="epoch", grace_period=1, reduction_factor=t.choice([2, 3]), searcher_data=t.choice(["rungs", "all", "rungs_and_last"]))
            if typ == "promotion" and use_mra:
                cs = dict(cs, epochs=max_t)
                kw["max_resource_attr"] = "epochs"
            else:
                kw["max_t"] = max_t
                use_mra = False
            spec = gen_sched.SchedSpec(fam, "HyperbandScheduler", kw, dict(cs))
            spec.pause_resume = typ == "promotion"
        _restrict(t, spec, cs, dup)
        return spec, cs, use_mra
    spec = gen_sched.gen_sched(t, cs, max_t=max_t, max_resource_attr="epochs" if use_mra else None, families=[fam], n_workers=n_workers)
    if dup and spec.kwargs.get("searcher") == "random":
        spec.kwargs["search_options"] = dict(spec.kwargs.get("search_options") or {}, allow_duplicates=True)
    _restrict(t, spec, cs, dup)
    return spec, cs, use_mra


def _restrict(t, spec, cs, dup):
    """``restrict_configurations`` (random and GP searchers, finite spaces only): suggestions are drawn from a given list through a
    separate code path (``_get_random_config_from_restrict_configurations``), which has its own handling of the exclusion list."""
    from syne_tune.config_space import Categorical, Integer

    if spec.kwargs.get("searcher") not in ("random", "bayesopt") or spec.family == "fifo-grid":
        return
    hps = {k: v for k, v in cs.items() if k != "epochs"}
    if not all(isinstance(v, (Categorical, Integer)) for v in hps.values()):
        return
    if not t.chance(1, 2 if dup else 4):
        return
    import itertools

    names = sorted(hps)
    values = [list(hps[k].categories) if isinstance(hps[k], Categorical) else list(range(hps[k].lower, hps[k].upper + 1)) for k in names]
    grid = [dict(zip(names, v)) for v in itertools.product(*values)]
    keep = [c for c in grid if t.chance(2, 3)]
    if len(keep) < 2:
        keep = grid[:2]
    extra = {k: v for k, v in cs.items() if k == "epochs"}
    spec.kwargs["search_options"] = dict(spec.kwargs.get("search_options") or {}, restrict_configurations=[dict(c, **extra) for c in keep])
    spec.restricted = True


def run_protocol(t, fam, controller=None, fixed=None):
    """``controller(driver) -> (action, trial_id)`` replaces the tape's choice of the next step (fault enumeration);
    ``fixed`` then carries max_t, n_workers, seed, and ``t`` is a tape that only returns defaults."""
    from syne_tune.optimizer.schedulers.searchers.utils.hp_ranges_factory import make_hyperparameter_ranges

    max_t = fixed["max_t"] if fixed else t.int(2, 6)
    n_workers = fixed["n_workers"] if fixed else t.int(1, 4)
    use_mra = fam in ("hb-promotion", "hb-pasha", "sync-hb", "dehb", "hb-bo-promotion") and t.bool()
    spec, cs, use_mra = build(t, fam, max_t, use_mra, n_workers)
    fam = spec.family
    if fixed and "random_seed" in spec.kwargs:
        spec.kwargs["random_seed"] = fixed["seed"]
    sched = spec.build()
    tk = dp.make_time_keeper()
    inner = getattr(sched, "scheduler", sched)
    if hasattr(inner, "set_time_keeper"):
        inner.set_time_keeper(tk)
    hp = make_hyperparameter_ranges({k: v for k, v in cs.items() if k != "epochs"})
    curve = {}

    def result_fn(tid, config, level):
        if fixed:
            return {"loss": ((tid * 7 + level * 3 + fixed["seed"] * 5) % 11 + 0.5 * ((tid + level) % 2)) / 11.0}
        return {"loss": curve.setdefault((tid, level), t.float(0.0, 1.0))}

    def cap(config):
        return int(config["epochs"]) if use_mra and "epochs" in config else max_t

    gp = fam in GP_FAMILIES
    d = dp.ProtocolDriver(
        sched, t, result_fn, level_cap_fn=cap, n_workers=n_workers, max_trials=fixed["max_trials"] if fixed else t.int(2, 8), max_steps=25 if gp else 60,
        checkpointing=fixed["checkpointing"] if fixed else not t.chance(1, 3), allow_fail=True, fail_weight=2, time_keeper=tk,
    )
    labels = {fam}
    if (spec.kwargs.get("search_options") or {}).get("allow_duplicates"):
        labels.add("allow-duplicates")
    if getattr(spec, "restricted", False):
        labels.add("restrict-configurations")
    failed_cfg = {}
    cfg_of = {}
    no_repeat = fam in ("fifo-random", "fifo-grid", "fifo-bo", "hb-stopping", "hb-promotion", "hb-pasha", "hb-bo-stopping", "hb-bo-promotion", "sync-hb")
    events_after_failure = 0
    resumed = set()
    while True:
        # book-keeping of the others is compared across the on_trial_error call
        before = None
        orig_error = sched.on_trial_error
        holder = {}

        def probing(trial, _orig=orig_error):
            holder["tid"] = trial.trial_id
            holder["before"] = snapshot_others(sched, fam, trial.trial_id)
            r = _orig(trial)
            holder["after"] = snapshot_others(sched, fam, trial.trial_id)
            return r

        sched.on_trial_error = probing
        try:
            if controller is not None:
                if not d.enabled() or d.steps >= d.max_steps:
                    ev = None
                else:
                    act, tid_forced = controller(d)
                    ev = d.step(force=act, force_tid=tid_forced)
            else:
                ev = d.step()
        except Violation as v:
            if v.kind == "resume-of-non-paused-trial" and "failed" in str(v.detail):
                kind = f"failed-trial-resumed:{fam}"
                if fam == "sync-hb":
                    # the listed finding is 'fewer valid results than slots'; a failed trial that is
                    # resumed although enough valid results exist is a different matter
                    import math
                    import re

                    m = re.search(r"resumes trial (\d+)", str(v.detail))
                    tid_f = int(m.group(1)) if m else None
                    for b in getattr(sched.bracket_manager, "_brackets", []):
                        if b.current_rung >= 1 and not b.is_bracket_complete():
                            prev = b._rungs[b.current_rung - 1][0]
                            cur = b._rungs[b.current_rung][0]
                            if any(x[0] == tid_f for x in prev):
                                valid = sum(1 for x in prev if x[1] is not None and not math.isnan(x[1]))
                                if valid >= len(cur):
                                    kind = "failed-trial-resumed-although-enough-valid-results:sync-hb"
                raise Violation(kind, str(v.detail)[:600])
            raise
        except Exception as e:
            import traceback

            where = "after-failure" if d.n_fails > 0 else "before-any-failure"
            tb = traceback.extract_tb(e.__traceback__)
            site = next((f"{fr.filename.split('/')[-1]}:{fr.name}" for fr in reversed(tb) if "/syne_tune/" in fr.filename), "?")
            raise Violation(f"scheduler-raises:{where}:{fam}:{type(e).__name__}:{site}", f"{spec.describe()}: {type(e).__name__}: {e}; tail={[(x.op, x.get('kind'), x.get('trial_id'), x.get('level')) for x in d.trace[-8:]]}")
        finally:
            sched.on_trial_error = orig_error
        if ev is None:
            break
        if d.n_fails > 0:
            events_after_failure += 1
        if ev.op == "fail":
            labels.add("failure")
            if ev.run > 0:
                labels.add("failure-after-resume")
            if ev.level == 0:
                labels.add("failure-before-first-report")
            if holder.get("before") != holder.get("after"):
                b, a = holder.get("before"), holder.get("after")
                diff = {k: (b.get(k), a.get(k)) for k in b if b.get(k) != a.get(k)}
                raise Violation(
                    f"failure-changes-other-trials-bookkeeping:{fam}:{'+'.join(sorted(diff))}",
                    f"{spec.describe()}: on_trial_error({ev.trial_id}) changed {diff}",
                )
            # the failed trial's own pending evaluations are gone
            st_ = getattr(getattr(getattr(getattr(sched, "scheduler", sched), "searcher", None), "state_transformer", None), "state", None)
            if st_ is not None:
                left = sorted((p.trial_id, str(getattr(p, "resource", None))) for p in st_.pending_evaluations if str(p.trial_id) == str(ev.trial_id))
                if left:
                    raise Violation(f"failed-trial-keeps-pending-evaluations:{fam}", f"{spec.describe()}: after on_trial_error({ev.trial_id}) the searcher state still holds pending {left}")
            if holder.get("before", {}).get("pending"):
                labels.add("gp-pending-at-failure")
            if holder.get("before", {}).get("slots"):
                labels.add("failure-in-synchronous-bracket")
            if ev.trial_id in cfg_of:
                failed_cfg[cfg_of[ev.trial_id]] = ev.trial_id
        elif ev.op == "suggest" and ev.kind == "start":
            ms = hp.config_to_match_string({k: ev.config[k] for k in cs if k != "epochs"})
            cfg_of[ev.trial_id] = ms
            if no_repeat and ms in failed_cfg:
                raise Violation(f"failed-configuration-suggested-again:{fam}", f"{spec.describe()}: trial {ev.trial_id} gets the configuration of failed trial {failed_cfg[ms]}: {ev.config}")
        elif ev.op == "suggest" and ev.kind == "none":
            break
    nt = d.n_fails >= 1 and events_after_failure >= 3
    return Result(sorted(labels), nt, {"scheduler": spec.describe(), "events": [(x.op, x.get("kind"), x.get("trial_id"), x.get("level"), x.get("decision")) for x in d.trace[:40]]})


def case_protocol(t):
    return run_protocol(t, t.choice(FAMILIES))


def case_protocol_gp(t):
    return run_protocol(t, t.choice(GP_FAMILIES))


ENUM_FAMILIES = FAMILIES


def _fault_grid(tier):
    import itertools

    trials, slots, kmax = (4, 4, 2) if tier == "quick" else (5, 5, 3)
    grid = [(a, b) for a in range(trials) for b in range(slots)]
    for k in range(kmax + 1):
        for plan in itertools.combinations(grid, k):
            yield trials, plan


def enum_faults(tier):
    """log = [family, policy, seed, n_workers, checkpointing, max_trials, k, (trial, slot) * k]: every set of <= 2 (thorough: <= 3)
    fault placements (trial i fails when it is about to deliver its j-th report, counted over its whole life, j = 0 .. ) in a
    deterministic schedule."""
    for fi in range(len(ENUM_FAMILIES)):
        for policy in (0, 1):
            for seed in (0, 1):
                for nw in (2, 3):
                    for trials, plan in _fault_grid(tier):
                        yield [fi, policy, seed, nw, (seed + policy) % 2, trials, len(plan)] + [x for p in plan for x in p]


def case_enum(t):
    from harness.tape import Tape

    fam = ENUM_FAMILIES[t.int(0, len(ENUM_FAMILIES) - 1)]
    policy = t.int(0, 1)
    seed = t.int(0, 1)
    nw = t.int(2, 3)
    ckpt = t.int(0, 1) == 1
    trials = t.int(4, 5)
    k = t.int(0, 3)
    plan = {(t.int(0, 4), t.int(0, 4)) for _ in range(k)}
    picked = {}
    state = {"turn": 0}

    def controller(d):
        acts = d.enabled()
        state["turn"] += 1
        want_report = "report" in acts and ("suggest" not in acts or (policy == 1 and state["turn"] % 2 == 0))
        if not want_report:
            return "suggest", None
        ids = sorted(d.running)
        tid = ids[0] if policy == 0 else ids[-1]
        j = picked.get(tid, 0)
        picked[tid] = j + 1
        if (tid, j) in plan:
            return "fail", tid
        return "report", tid

    fixed = {"max_t": 4, "n_workers": nw, "seed": seed, "max_trials": trials, "checkpointing": ckpt}
    res = run_protocol(Tape(log=[]), fam, controller=controller, fixed=fixed)
    res.labels = sorted(set(res.labels) | {f"faults-{len(plan)}"})
    return res


def case_tuner(t):
    from syne_tune import StoppingCriterion
    from syne_tune.config_space import uniform

    n_workers = t.int(1, 4)
    max_t = t.int(2, 6)
    use_mra = t.bool()
    spec = gen_sched.gen_sched(
        t, {"x": uniform(0.0, 1.0), "y": uniform(0.0, 1.0)}, max_t=max_t, max_resource_attr="epochs" if use_mra else None,
        families=["fifo-random", "hb-stopping", "hb-promotion", "median", "pbt", "hb-pasha"], n_workers=n_workers,
    )
    sched = spec.build()

    def max_t_fn(tid, config):
        return int(config["epochs"]) if use_mra and "epochs" in config else max_t

    script_fn = make_script_fn(t, max_t_fn, t.bool(), fail_rate=3)
    max_failures = t.weighted([(2, 1), (2, 0), (1, 2), (1, 5)])
    crit = StoppingCriterion(max_num_trials_started=t.int(2, 9), max_num_evaluations=60)
    run = ds.run_scripted(t, sched, script_fn, n_workers, crit, allow_late_lines=True, max_failures=max_failures, external_stop=t.chance(1, 3))
    labels = {spec.family}
    exc = run.exception
    n_failed = len({tid for e in run.rec.of("fetch") for tid, s in e["status"].items() if s == "Failed"})
    ever_failed = {tid for e in run.rec.of("fetch") for tid, s in e["status"].items() if s == "Failed"}
    if run.loop_guard:
        return Result(sorted(labels) + ["loop-guard"], False, None)
    if exc is not None:
        import re

        if isinstance(exc, ValueError) and "failed" in str(exc):
            labels.add("limit-exceeded")
            m = re.search(r"(\d+)", str(exc))
            if not m or int(m.group(1)) not in ever_failed:
                raise Violation("failure-limit-error-names-wrong-trial", f"{exc!r}; trials that failed: {sorted(ever_failed)}")
        else:
            import traceback

            tb = "".join(traceback.format_exception(type(exc), exc, exc.__traceback__))[-700:]
            raise Violation(f"run-raises:{type(exc).__name__}:{spec.family}", f"{spec.describe()}: {tb}")
    nt = lifecycle.check_lifecycle(run, n_workers, labels)
    # the failure limit is enforced: trials whose state, as the loop saw it, is 'failed'
    from checks.c12 import Tracker

    tr = Tracker()
    for e in run.events:
        tr.apply(e)
    if exc is None and tr.failed > max_failures:
        raise Violation("failure-limit-not-enforced", f"{tr.failed} trials failed ({sorted(t_ for t_, s_ in tr.status.items() if s_ == 'Failed')}), max_failures={max_failures}, but run() returned normally")
    if exc is not None and "limit-exceeded" in labels and not (len(tr.ever_failed) > max_failures):
        raise Violation("failure-limit-error-without-failures", f"{exc!r}: {len(tr.ever_failed)} failures, max_failures={max_failures}")
    n_err = len(run.rec.of("sched.error"))
    if n_err:
        labels.add("on_trial_error")
    return Result(sorted(labels), n_failed >= 1 and len(run.events) > 20, {"scheduler": spec.describe(), "max_failures": max_failures, "events": brief(run, 40)})


SUBCHECKS = {
    "protocol": {"fn": case_protocol, "quick": 14000, "thorough": 300000, "required": ["failure", "failure-after-resume", "failure-before-first-report", "failure-in-synchronous-bracket"] + FAMILIES},
    "protocol-gp": {"fn": case_protocol_gp, "quick": 640, "thorough": 10000, "min_per_shard": 10, "required": ["failure", "gp-pending-at-failure", "allow-duplicates"]},
    "fault-enumeration": {"fn": case_enum, "enumerate": enum_faults, "quick": 1, "thorough": 1},
    "tuner": {"fn": case_tuner, "quick": 6000, "thorough": 120000, "required": ["failure", "stopped-externally", "limit-exceeded", "on_trial_error"]},
}
