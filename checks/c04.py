"""C04 — promotion-type Hyperband (ASHA, PASHA, cost-aware, RUSH) promotes only eligible trials."""
from harness import driver_protocol as dp
from harness.ref_promotion import RefPromotion
from harness.ref_stopping import ref_rung_levels
from harness.tape import HarnessError, Result, Violation
from checks.c03 import gen_levels

PROPERTY = "C04"
LEVEL = "exploration"
RULE = (
    "Generated HyperbandScheduler(type in promotion|pasha|cost_promotion|rush_promotion, searcher=random) arguments (rung "
    "systems as in C03, 1..3 brackets shared/per-bracket, mode, with/without max_resource_attr), training scripts with and "
    "without checkpointing (restart re-reports old levels), metric and cost curves, and every tape-chosen interleaving of "
    "suggest calls and reports of up to 4 concurrent trials through the protocol driver; in a quarter of the cases running trials fail at tape-chosen points. Oracle: reference model from the "
    "doc-strings — every job has a target (first milestone / next rung level), PAUSE exactly at the target, STOP at max_t; every "
    "suggest outcome (resume X from rung r to the next level, or a new trial with its first milestone) must be among the outcomes "
    "the documented rule allows in the current state (top-down scan, best unpromoted entry, numpy.quantile cut-off or cumulative-cost "
    "prefix, ties either way); PASHA: cap monotone, a rung level or max_t, no target above it. "
    "Non-trivial = a suggest call made while some rung holds >= 2 entries; distinct = distinct choice tape."
)
ASSUMPTIONS = [
    "trial -> bracket map, rung entries and the PASHA cap are read from the scheduler's own state (the state the property anchors)",
    "PASHA is used with one bracket (the only way its documented callers use it)",
    "RUSH promotion is generated with a shared rung system and metrics in general position (its thresholds are updated as a side effect of scanning)",
    "cost-aware cases use integer-valued costs (exact sums) and metrics in general position",
]


def case(t):
    from syne_tune.config_space import uniform
    from syne_tune.optimizer.schedulers import HyperbandScheduler

    variant = t.weighted([(4, "promotion"), (2, "pasha"), (2, "cost_promotion"), (1, "rush_promotion")])
    kw, max_t, levels, lab = gen_levels(t)
    mode = t.choice(["min", "max"])
    if variant == "pasha":
        brackets, per_bracket = 1, False
    else:
        brackets = t.weighted([(3, 1), (2, 2), (1, 3)])
        per_bracket = t.bool() if brackets > 1 else False
    if variant == "rush_promotion":
        per_bracket = False
    use_mra = t.bool()
    checkpointing = not t.chance(1, 3)
    ties = variant == "promotion" and t.chance(1, 3)
    n_workers = t.int(1, 4)
    max_trials = t.int(2, 10)
    seed = t.int(0, 2**31 - 2)
    cs = {"x": uniform(0.0, 1.0)}
    args = dict(
        metric="loss",
        mode=mode,
        resource_attr="epoch",
        brackets=brackets,
        rung_system_per_bracket=per_bracket,
        searcher="random",
        random_seed=seed,
        type=variant,
        **kw,
    )
    if use_mra:
        cs["epochs"] = max_t
        args["max_resource_attr"] = "epochs"
    else:
        args["max_t"] = max_t
    rush_n = 0
    if variant == "rush_promotion":
        npts = t.int(1, 3)
        rush_n = t.int(0, npts)
        args["points_to_evaluate"] = [{"x": (i + 1) / 10.0} for i in range(npts)]
        args["rung_system_kwargs"] = {"num_threshold_candidates": rush_n}
    if variant == "cost_promotion":
        args["cost_attr"] = "cost"
    sched = HyperbandScheduler(cs, **args)
    tk = dp.make_time_keeper()
    sched.set_time_keeper(tk)
    if list(sched.rung_levels) != levels:
        raise Violation("rung-levels", f"args={kw} max_t={max_t}: {sched.rung_levels} != documented {levels}")
    ref = RefPromotion(levels, max_t, mode, brackets, per_bracket, variant=variant, rush_candidates=rush_n)
    curve = {}
    costs = {}
    run_start = {}

    def result_fn(tid, config, level):
        key = (tid, level)
        if key not in curve:
            if ties:
                curve[key] = float(t.int(0, 4))
            else:
                # general position by construction: all values distinct
                curve[key] = (t.int(0, 999) * 1024 + len(curve)) / 1024000.0
            costs[key] = float(t.int(1, 5))
        res = {"loss": curve[key]}
        if variant == "cost_promotion":
            # cost since the start of this run (what a script reports)
            res["cost"] = sum(costs[(tid, l)] for l in range(run_start[tid], level + 1))
        return res

    def level_cap(config):
        return config["epochs"] if use_mra else max_t

    # failures of running trials must not change what the rule allows for the others (C13's "keeps making legal decisions")
    with_failures = t.chance(1, 4)
    drv = dp.ProtocolDriver(
        sched,
        t,
        result_fn,
        level_cap_fn=level_cap,
        n_workers=n_workers,
        max_trials=max_trials,
        max_steps=t.weighted([(3, 50), (2, 100), (1, 20)]),
        checkpointing=checkpointing,
        time_keeper=tk,
        allow_fail=with_failures,
        fail_weight=1,
    )
    bracket_of = {}
    target = {}
    labels = {variant, lab, mode, f"brackets-{brackets}", "per-bracket" if per_bracket else "shared", "mra" if use_mra else "no-mra", "checkpointing" if checkpointing else "restart"}
    nontrivial = False
    rsys = getattr(sched.terminator, "_rung_systems", None)

    def pasha_cap():
        if variant != "pasha":
            return None
        return rsys[0].current_max_t

    cap_prev = pasha_cap()
    if cap_prev is not None and cap_prev not in levels + [max_t]:
        raise Violation("pasha-cap-not-a-level", f"{cap_prev} levels={levels}")
    ctx = f"variant={variant} levels={levels} max_t={max_t} mode={mode} brackets={brackets}/{'per' if per_bracket else 'shared'} mra={use_mra} ckpt={checkpointing}"
    single_rung_pasha = variant == "pasha" and len(levels) == 1
    while True:
        if single_rung_pasha:
            # known finding: decided by a direct probe, then excluded
            try:
                while True:
                    e0 = drv.step()
                    if e0 is None or e0.op == "report":
                        break
            except IndexError as e:
                raise Violation("pasha-single-rung-level", f"{ctx}: {type(e).__name__}: {e}")
            return Result(sorted(labels) + ["pasha-single-rung-ok"], False, None)
        # state before the step (needed for suggest oracles)
        cap_before = pasha_cap()
        any_rung_2 = any(len(r) >= 2 for s in ref.systems for r in s.values())
        ev = drv.step()
        if ev is None:
            break
        cap_now = pasha_cap()
        if cap_now is not None:
            if cap_now < cap_prev:
                raise Violation("pasha-cap-decreased", f"{ctx}: {cap_prev} -> {cap_now}")
            if cap_now not in levels + [max_t]:
                raise Violation("pasha-cap-not-a-level", f"{ctx}: {cap_now}")
            if cap_now > cap_prev:
                labels.add("pasha-cap-increase")
            cap_prev = cap_now
        if ev.op == "suggest":
            if ev.kind == "none":
                raise Violation("suggest-none", f"{ctx}: random search on a continuous space returned nothing")
            if any_rung_2:
                nontrivial = True
                labels.add("suggest-with-rung>=2")
            if ev.kind == "start":
                tid = ev.trial_id
                b = sched.terminator._task_info.get(str(tid))
                if b is None or not (0 <= b < ref.num_brackets):
                    raise Violation("bracket-out-of-range", f"{ctx}: trial {tid} bracket {b}")
                bracket_of[tid] = b
                sys_id = ref.system_of(b)
                allowed, amb = ref.allowed_outcomes(sys_id, cap=cap_before)
                if ("new",) not in allowed:
                    raise Violation(
                        f"new-trial-although-promotable:{variant}",
                        f"{ctx}: new trial {tid} (bracket {b}) but rule requires one of {sorted(allowed)}; rungs={ref.rung_contents(sys_id)}",
                    )
                fm = ref.first_milestone(b)
                target[tid] = fm
                run_start[tid] = 1
                if use_mra and ev.config.get("epochs") != fm:
                    raise Violation("new-trial-max-resource", f"{ctx}: trial {tid} bracket {b}: config[epochs]={ev.config.get('epochs')} != first milestone {fm}")
                if cap_before is not None and fm > cap_before and fm != levels[0]:
                    raise Violation("pasha-target-above-cap", f"{ctx}: new trial target {fm} > cap {cap_before}")
            else:
                tid = ev.trial_id
                labels.add("promotion")
                b = bracket_of[tid]
                sys_id = ref.system_of(b)
                if per_bracket:
                    # the bracket sampled inside suggest is not observable for
                    # a resume: soundness only (the trial is eligible where it lives)
                    allowed, amb = ref.allowed_outcomes(sys_id, cap=cap_before)
                else:
                    allowed, amb = ref.allowed_outcomes(0, cap=cap_before)
                frm = ev.resume_from
                match = [o for o in allowed if o[0] == "resume" and o[1] == str(tid) and o[2] == frm]
                if not match:
                    why = "not eligible"
                    if frm in ref.promoted_from.get(str(tid), set()):
                        why = "already promoted from this rung"
                    raise Violation(
                        f"resume-not-allowed:{variant}",
                        f"{ctx}: resumed trial {tid} from {frm} ({why}); rule allows {sorted(allowed)}; rungs={ref.rung_contents(sys_id)} cap={cap_before}",
                    )
                to = match[0][3]
                ref.apply_resume(sys_id, str(tid), frm)
                target[tid] = to
                run_start[tid] = frm + 1 if checkpointing else 1
                if frm >= 2 and levels.index(frm) >= 1:
                    labels.add("promotion-from-rung>=2")
                if use_mra:
                    if ev.config is None or ev.config.get("epochs") != to:
                        raise Violation("resume-max-resource", f"{ctx}: trial {tid} resumed from {frm}: config={ev.config}, next level {to}")
                    if "x" not in ev.config:
                        raise Violation("resume-config-lost", f"{ctx}: {ev.config}")
                if to > max_t:
                    raise Violation("target-above-max_t", f"{ctx}: {to}")
                if cap_before is not None and to > cap_before:
                    raise Violation("pasha-target-above-cap", f"{ctx}: trial {tid} resumed from {frm} to {to} > cap {cap_before}")
                if not checkpointing:
                    labels.add("restart-after-resume")
            continue
        if ev.op == "fail":
            labels.add("failure")
        if ev.op != "report":
            continue
        tid = ev.trial_id
        tgt = target[tid]
        if ev.level > tgt or ev.level > max_t:
            raise Violation("report-above-target", f"{ctx}: trial {tid} level {ev.level} target {tgt}")
        if ev.level < tgt:
            want = "CONTINUE"
        elif tgt >= max_t:
            want = "STOP"
        else:
            want = "PAUSE"
        if ev.decision != want:
            raise Violation(
                f"decision:{want}-expected",
                f"{ctx}: trial {tid} (bracket {bracket_of[tid]}) level {ev.level} target {tgt} -> {ev.decision}, expected {want}; trace tail={[(e.op, e.get('kind'), e.get('trial_id'), e.get('level'), e.get('decision')) for e in drv.trace[-6:]]}",
            )
        if want == "PAUSE":
            total_cost = None
            if variant == "cost_promotion":
                total_cost = sum(costs[(tid, l)] for l in range(1, ev.level + 1))
            r = ref.register(str(tid), bracket_of[tid], ev.level, ev.result["loss"], total_cost)
            if r == "duplicate":
                raise Violation("trial-enters-rung-twice", f"{ctx}: trial {tid} level {ev.level}")
        # rung contents as the scheduler sees them
        if rsys is not None:
            for sys_id, rs in enumerate(rsys):
                got = {}
                for rung in rs._rungs:
                    got[rung.level] = sorted((e.trial_id, e.metric_val, e.was_promoted) for e in rung.data)
                    if variant == "cost_promotion":
                        for e in rung.data:
                            want_c = sum(costs[(int(e.trial_id), l)] for l in range(1, rung.level + 1))
                            if abs(e.cost_val - want_c) > 1e-9:
                                raise Violation("rung-cost", f"{ctx}: trial {e.trial_id} rung {rung.level}: cost {e.cost_val} != total {want_c}")
                want_r = ref.rung_contents(sys_id)
                if got != want_r:
                    raise Violation("rung-contents", f"{ctx}: system {sys_id}: scheduler {got} reference {want_r}")
    sample = {
        "args": {k: v for k, v in args.items() if k != "points_to_evaluate"},
        "levels": levels,
        "n_workers": n_workers,
        "checkpointing": checkpointing,
        "events": [
            [e.op, e.get("kind"), e.get("trial_id"), e.get("level") or e.get("resume_from"), e.get("decision"), (e.get("result") or {}).get("loss")]
            for e in drv.trace[:40]
        ],
    }
    return Result(sorted(labels), nontrivial, sample)


SUBCHECKS = {
    "promotion": {
        "fn": case,
        "quick": 24000,
        "thorough": 500000,
        "required": ["failure", "suggest-with-rung>=2", "promotion", "promotion-from-rung>=2", "pasha-cap-increase", "restart-after-resume", "cost_promotion", "rush_promotion", "per-bracket", "mra"],
    },
}
