"""C03 — stopping-type asynchronous Hyperband decides by the documented quantile rule."""
import numpy as np

from harness import driver_protocol as dp
from harness.ref_stopping import RefStopping, ref_rung_levels
from harness.tape import HarnessError, Result, Violation

PROPERTY = "C03"
LEVEL = "exploration"
RULE = (
    "Generated HyperbandScheduler(type=stopping|rush_stopping, searcher=random) arguments (grace period, reduction "
    "factor incl. non-integer, or rung increment, or explicit rung list, max_t, 1..4 brackets shared/per-bracket, mode) and "
    "per-trial metric curves (general position or small-integer ties), driven by the protocol driver through every "
    "tape-chosen interleaving of up to 4 concurrent trials; in a quarter of the cases running trials fail at tape-chosen points (the decisions for the others must not change). Oracle: reference model written from the doc-strings "
    "(numpy.quantile with q = r_j/r_{j+1}, bracket offset, once per rung, STOP at max_t, RUSH thresholds); decision and "
    "rung contents are compared after every event; a metric within 4 ulp of the cut-off may go either way. "
    "Non-trivial = a decision taken at a rung holding >= 2 entries; distinct = distinct choice tape."
)
ASSUMPTIONS = [
    "trial -> bracket is read from the scheduler's own map (terminator._task_info), the state the property anchors",
    "trials report increasing resource levels; in a quarter of the cases a script skips levels (the scheduler documents that it warns and carries on)",
    "RUSH cases use metrics in general position (a tie would make the threshold state ambiguous)",
]


def gen_levels(t):
    """Returns (kwargs for the scheduler, max_t, reference levels, label)."""
    kind = t.weighted([(4, "rf"), (2, "incr"), (2, "list")])
    max_t = t.weighted([(3, 9), (2, 4), (2, 8), (1, 27), (1, 16), (1, 81), (3, None)])
    if max_t is None:
        max_t = t.int(2, 30)
    kw = {}
    if kind == "rf":
        grace = t.weighted([(4, 1), (2, 2), (1, 3)])
        if grace >= max_t:
            grace = 1
        rf = t.weighted([(3, 3), (3, 2), (1, 4), (1, 2.5), (1, 3.7), (1, 5)])
        kw.update(grace_period=grace, reduction_factor=rf)
        levels = ref_rung_levels(None, grace, rf, None, max_t)
        label = "eta-int" if rf == int(rf) else "eta-nonint"
    elif kind == "incr":
        grace = t.weighted([(4, 1), (2, 2), (1, 3)])
        if grace >= max_t:
            grace = 1
        inc = t.int(1, 4)
        kw.update(grace_period=grace, rung_increment=inc)
        levels = ref_rung_levels(None, grace, None, inc, max_t)
        label = "increment"
    else:
        cand = list(range(1, max_t + 1))
        sel = [x for x in cand if t.chance(1, 3)]
        while len(sel) < 2:
            x = cand[t.index(len(cand))]
            if x not in sel:
                sel.append(x)
        sel = sorted(sel)[:8]
        kw.update(rung_levels=list(sel))
        levels = ref_rung_levels(sel, None, None, None, max_t)
        label = "list"
        if not levels:
            # a single level equal to max_t: the library requires rung_levels[-1] < max_t after stripping
            raise HarnessError("unreachable: list has >= 2 entries")
    return kw, max_t, levels, label


def case(t):
    from syne_tune.config_space import uniform
    from syne_tune.optimizer.schedulers import HyperbandScheduler

    kw, max_t, levels, lab = gen_levels(t)
    mode = t.choice(["min", "max"])
    brackets = t.weighted([(3, 1), (2, 2), (1, 3), (1, 4)])
    per_bracket = t.bool() if brackets > 1 else False
    rush = t.chance(1, 5)
    ties = (not rush) and t.chance(1, 3)
    n_workers = t.int(1, 4)
    max_trials = t.int(2, 10)
    seed = t.int(0, 2**31 - 2)
    sparse = t.chance(1, 4)
    args = dict(
        metric="loss",
        mode=mode,
        resource_attr="epoch",
        max_t=max_t,
        brackets=brackets,
        rung_system_per_bracket=per_bracket,
        searcher="random",
        random_seed=seed,
        type="rush_stopping" if rush else "stopping",
        **kw,
    )
    rush_n = 0
    if rush:
        npts = t.int(1, 3)
        rush_n = t.int(0, npts)
        args["points_to_evaluate"] = [{"x": (i + 1) / 10.0} for i in range(npts)]
        args["rung_system_kwargs"] = {"num_threshold_candidates": rush_n}
    sched = HyperbandScheduler({"x": uniform(0.0, 1.0)}, **args)
    tk = dp.make_time_keeper()
    sched.set_time_keeper(tk)
    if list(sched.rung_levels) != levels:
        raise Violation("rung-levels", f"args={kw} max_t={max_t}: {sched.rung_levels} != documented {levels}")
    ref = RefStopping(levels, max_t, mode, brackets, per_bracket, rush_candidates=rush_n)
    curve = {}

    def result_fn(tid, config, level):
        key = (tid, level)
        if key not in curve:
            curve[key] = float(t.int(0, 4)) if ties else t.float(0.0, 1.0)
        return {"loss": curve[key]}

    # failures of some trials must not change the decisions taken for the others (C13's "keeps making legal decisions")
    with_failures = t.chance(1, 4)
    drv = dp.ProtocolDriver(
        sched,
        t,
        result_fn,
        level_cap_fn=lambda config: max_t,
        n_workers=n_workers,
        max_trials=max_trials,
        max_steps=t.weighted([(3, 40), (2, 80), (1, 15)]),
        time_keeper=tk,
        sparse_reports=sparse,
        allow_fail=with_failures,
        fail_weight=1,
    )
    bracket_of = {}
    labels = {lab, mode, "sparse-reports" if sparse else "dense-reports", "rush" if rush else "plain", f"brackets-{brackets}", "per-bracket" if per_bracket else "shared"}
    nontrivial = False
    while True:
        ev = drv.step()
        if ev is None:
            break
        if ev.op == "suggest":
            if ev.kind == "resume":
                raise Violation("stopping-type-resumes", f"{ev}")
            if ev.kind == "start":
                b = sched.terminator._task_info.get(str(ev.trial_id))
                if b is None or not (0 <= b < ref.num_brackets):
                    raise Violation("bracket-out-of-range", f"trial {ev.trial_id}: bracket {b}, num_brackets {ref.num_brackets}")
                bracket_of[ev.trial_id] = b
                if b > 0:
                    labels.add("bracket>0")
            continue
        if ev.op == "fail":
            labels.add("failure")
        if ev.op != "report":
            continue
        tid = ev.trial_id
        m = ev.result["loss"]
        ok, info = ref.on_report(str(tid), bracket_of[tid], ev.level, m)
        if rush and info.get("tie"):
            return Result(sorted(labels) + ["dropped-rush-tie"], False, None)
        if info["n"] >= 2:
            nontrivial = True
            labels.add("rung-decision")
            if ev.decision == "STOP":
                labels.add("stop-at-rung")
            if info.get("tie"):
                labels.add("tie")
        if ev.decision not in ok:
            kind = "decision-at-max_t" if ev.level >= max_t else ("decision-at-rung" if info["rung"] is not None else "decision-off-rung")
            raise Violation(
                kind + (":rush" if rush else ""),
                f"levels={levels} max_t={max_t} mode={mode} brackets={brackets}/{'per' if per_bracket else 'shared'} trial={tid} bracket={bracket_of[tid]} "
                f"level={ev.level} metric={m!r} info={info} rung={ref.rung_contents(bracket_of[tid]).get(ev.level)} -> {ev.decision}, reference {sorted(ok)}",
            )
        if ev.decision == "STOP" and len(ok) == 2 and info["rung"] is not None:
            pass
        # rung contents as seen by the scheduler == reference
        b = bracket_of[tid]
        snap = sched.terminator.snapshot_rungs(b)
        got = {lv: sorted((e.trial_id, e.metric_val) for e in data) for lv, data in snap}
        want = ref.rung_contents(b)
        if got != want:
            raise Violation("rung-contents", f"bracket {b}: scheduler {got} reference {want}")
    sample = {
        "args": {k: v for k, v in args.items() if k not in ("points_to_evaluate",)},
        "levels": levels,
        "n_workers": n_workers,
        "events": [
            [e.op, e.get("kind"), e.get("trial_id"), e.get("level"), e.get("decision"), (e.get("result") or {}).get("loss")]
            for e in drv.trace[:30]
        ],
    }
    return Result(sorted(labels), nontrivial, sample)


SUBCHECKS = {
    "stopping": {
        "fn": case,
        "quick": 30000,
        "thorough": 600000,
        "required": ["failure", "sparse-reports", "rung-decision", "stop-at-rung", "bracket>0", "eta-nonint", "tie", "rush", "per-bracket", "list", "increment"],
    },
}
