"""C14 — multi-fidelity surrogate data: each observation once, only live pending entries."""
import math

from harness import driver_protocol as dp
from harness.ref_stopping import ref_rung_levels
from harness.tape import HarnessError, Result, Violation

PROPERTY = "C14"
LEVEL = "exploration"
RULE = (
    "HyperbandScheduler (type stopping / promotion) with GP multi-fidelity ('bayesopt') and HyperTune searchers, searcher_data in "
    "{rungs, all, rungs_and_last}, register_pending_myopic on/off, grace period 1-3, 1-3 brackets, mode min/max with both reward maps, scripts with and "
    "without checkpointing (resumed trials re-report old levels), scripts that end on their own below the maximum resource, failures, driven by the protocol driver through tape-chosen "
    "interleavings of up to 3 concurrent trials; GP made cheap (1 restart, 3 L-BFGS iterations, 6 candidates, model used after 2 random "
    "picks). Oracle, evaluated on searcher.state_transformer.state after every event: the observed set equals exactly the (trial, level) "
    "pairs the data policy selects from what was delivered (no pair twice), each value equals the reported metric mapped to the "
    "minimisation convention; every pending entry belongs to a running trial, at a level not yet observed and not above the maximum "
    "resource; paused / stopped / completed / failed trials have no pending entries. "
    "Non-trivial = >= 1 pause+resume or failure and >= 6 delivered results; distinct = distinct choice tape."
)
ASSUMPTIONS = [
    "the surrogate's data set is read from searcher.state_transformer.state (the state the property anchors); DyHPO is not generated (its rung system needs extra set-up that does not construct here)",
    "for mode=max the library maps rewards with 1 - x (default) or -x (map_reward='minus_x'); both are generated and used as the stated convention",
]

GP_OPTS = {"num_init_random": 2, "opt_nstarts": 1, "opt_maxiter": 3, "num_init_candidates": 6, "debug_log": False, "opt_skip_init_length": 50}


def case(t):
    from syne_tune.config_space import randint, uniform
    from syne_tune.optimizer.schedulers import HyperbandScheduler

    typ = t.choice(["promotion", "stopping"])
    searcher = t.weighted([(3, "bayesopt"), (1, "hypertune")])
    policy = t.choice(["rungs", "all", "rungs_and_last"])
    if searcher == "hypertune":
        policy = "rungs"  # the independent-GP model of HyperTune is defined at rung levels only
    myopic = t.bool()
    mode = t.choice(["min", "max"])
    max_t = t.weighted([(2, 4), (2, 9), (1, 6), (1, 3)])
    rf = t.choice([2, 3])
    gp = min(t.weighted([(3, 1), (2, 2), (1, 3)]), max_t - 1)
    early = t.chance(1, 3)
    brackets = t.weighted([(3, 1), (1, 2), (1, 3)])
    use_mra = typ == "promotion" and t.bool()
    checkpointing = not t.chance(1, 3)
    opts = dict(GP_OPTS)
    minus_x = t.bool()
    if minus_x:
        opts["map_reward"] = "minus_x"
    if searcher == "hypertune":
        opts["model"] = "gp_independent"
    cs = {"x": uniform(0.0, 1.0), "y": randint(0, 3)}
    kw = dict(
        metric="loss", mode=mode, resource_attr="epoch", type=typ, searcher=searcher, search_options=opts, searcher_data=policy,
        register_pending_myopic=myopic, grace_period=gp, reduction_factor=rf, brackets=brackets, random_seed=t.int(0, 10**6),
    )
    if use_mra:
        cs["epochs"] = max_t
        kw["max_resource_attr"] = "epochs"
    else:
        kw["max_t"] = max_t
    try:
        sched = HyperbandScheduler(cs, **kw)
    except (AssertionError, ValueError, KeyError) as e:
        return Result([f"constructor-rejected:{searcher}"], False, {"error": str(e)[:200]})
    tk = dp.make_time_keeper()
    sched.set_time_keeper(tk)
    levels = ref_rung_levels(None, gp, rf, None, max_t)
    rung_set = set(levels) | {max_t}
    curve = {}

    def result_fn(tid, config, level):
        return {"loss": curve.setdefault((tid, level), (t.int(0, 999) * 64 + len(curve) % 64) / 64000.0)}

    def cap(config):
        return int(config["epochs"]) if use_mra and "epochs" in config else max_t

    d = dp.ProtocolDriver(
        sched, t, result_fn, level_cap_fn=cap, n_workers=t.int(1, 3), max_trials=t.int(2, 6), max_steps=t.weighted([(3, 25), (1, 40)]),
        checkpointing=checkpointing, allow_fail=t.chance(1, 2), fail_weight=1, time_keeper=tk, early_complete=early,
    )
    labels = {typ, searcher, policy, "myopic" if myopic else "non-myopic", mode, "checkpointing" if checkpointing else "restart"}
    delivered = {}  # trial -> {level: metric}
    last_level = {}
    ctx0 = f"grace_period={gp} early_complete={early} type={typ} searcher={searcher} searcher_data={policy} myopic={myopic} mode={mode} minus_x={minus_x} max_t={max_t} rf={rf} brackets={brackets} mra={use_mra} ckpt={checkpointing}"

    def mapped(v):
        if mode == "min":
            return v
        return -v if minus_x else 1.0 - v

    n_delivered = 0
    while True:
        try:
            ev = d.step()
        except Violation:
            raise
        if ev is None:
            break
        if ev.op == "report":
            n_delivered += 1
            delivered.setdefault(ev.trial_id, {})[ev.level] = ev.result["loss"]
            last_level[ev.trial_id] = ev.level
            if ev.get("completed") and ev.level < min(levels + [max_t]):
                labels.add("completed-before-first-rung")
        st = sched.searcher.state_transformer.state
        tail = [(x.op, x.get("kind"), x.get("trial_id"), x.get("level"), x.get("decision")) for x in d.trace[-8:]]
        # ---- observations
        seen_pairs = set()
        for e in st.trials_evaluations:
            tid = int(e.trial_id)
            if tid in d.failed:
                continue
            tgt = e.metrics.get("target", {})
            for r_str, val in tgt.items():
                r = int(r_str)
                if (tid, r) in seen_pairs:
                    raise Violation("observation-twice", f"{ctx0}: ({tid}, {r}) appears twice; tail={tail}")
                seen_pairs.add((tid, r))
                rep = delivered.get(tid, {}).get(r)
                if rep is None:
                    raise Violation("observation-never-reported", f"{ctx0}: state holds ({tid}, {r}) = {val}, never delivered; tail={tail}")
                if abs(val - mapped(rep)) > 1e-12 * max(1.0, abs(rep)):
                    raise Violation("observation-value", f"{ctx0}: ({tid}, {r}): state {val!r}, reported {rep!r} -> {mapped(rep)!r}; tail={tail}")
        want = set()
        for tid, lv in delivered.items():
            if tid in d.failed:
                continue
            for r in lv:
                if policy == "all":
                    want.add((tid, r))
                elif r in rung_set:
                    want.add((tid, r))
                elif policy == "rungs_and_last" and r == last_level.get(tid) and r == max(lv):
                    want.add((tid, r))
        if seen_pairs != want:
            extra = sorted(seen_pairs - want)
            missing = sorted(want - seen_pairs)
            kind = "observations-missing" if missing and not extra else "observations-extra" if extra and not missing else "observations-differ"
            raise Violation(
                f"{kind}:{policy}",
                f"{ctx0}: rung levels {sorted(rung_set)}; state has extra {extra}, misses {missing}; delivered { {k: sorted(v) for k, v in delivered.items()} }; tail={tail}",
            )
        # ---- the (features, targets) handed to the GP: one row per observed pair, value unchanged
        if searcher == "bayesopt" and st.trials_evaluations and any(e.metrics.get("target") for e in st.trials_evaluations):
            from syne_tune.optimizer.schedulers.searchers.bayesopt.datatypes.tuning_job_state import TuningJobState
            from syne_tune.optimizer.schedulers.searchers.bayesopt.models.estimator import transform_state_to_data

            st_obs = TuningJobState(hp_ranges=st.hp_ranges, config_for_trial=st.config_for_trial, trials_evaluations=st.trials_evaluations, failed_trials=st.failed_trials)
            data = transform_state_to_data(st_obs, "target", normalize_targets=False)
            all_pairs = [(int(e.trial_id), int(r), v) for e in st.trials_evaluations for r, v in e.metrics.get("target", {}).items()]
            if data.features.shape[0] != len(all_pairs) or data.targets.shape[0] != len(all_pairs):
                raise Violation("data-rows-differ-from-observations", f"{ctx0}: {data.features.shape[0]} feature rows for {len(all_pairs)} observed pairs; tail={tail}")
            got_rows = sorted((int(st.hp_ranges.from_ndarray(f)[st.hp_ranges.name_last_pos]), round(float(y), 12)) for f, y in zip(data.features, data.targets[:, 0]))
            want_rows = sorted((r, round(float(v), 12)) for _, r, v in all_pairs)
            if got_rows != want_rows:
                raise Violation("data-rows-differ-from-observations", f"{ctx0}: rows (level, value) {got_rows} but observations {want_rows}; tail={tail}")
            labels.add("data-rows-checked")
        # ---- pending evaluations
        for p in st.pending_evaluations:
            tid = int(p.trial_id)
            r = getattr(p, "resource", None)
            if tid not in d.running:
                state = "paused" if tid in d.paused else "stopped" if tid in d.stopped else "completed" if tid in d.completed else "failed" if tid in d.failed else "unknown"
                raise Violation(f"pending-for-{state}-trial", f"{ctx0}: pending ({tid}, {r}) but the trial is {state}; tail={tail}")
            if r is not None:
                r = int(r)
                if (tid, r) in seen_pairs:
                    raise Violation("pending-for-observed-level", f"{ctx0}: pending ({tid}, {r}) is already observed; tail={tail}")
                if r > max_t:
                    raise Violation("pending-above-max-resource", f"{ctx0}: pending ({tid}, {r}); tail={tail}")
        if st.pending_evaluations:
            labels.add("pending-seen")
    if d.n_resumes:
        labels.add("pause+resume")
        if not checkpointing:
            labels.add("restart-without-checkpointing")
    if d.n_fails:
        labels.add("failure")
    nt = (d.n_resumes >= 1 or d.n_fails >= 1) and n_delivered >= 6
    return Result(sorted(labels), nt, {"case": ctx0, "events": [(x.op, x.get("kind"), x.get("trial_id"), x.get("level"), x.get("decision")) for x in d.trace[:40]]})


SUBCHECKS = {
    "surrogate-data": {
        "fn": case,
        "quick": 4000,
        "thorough": 80000,
        "min_per_shard": 20,
        "required": ["completed-before-first-rung", "data-rows-checked", "rungs", "all", "rungs_and_last", "myopic", "restart-without-checkpointing", "failure", "pause+resume", "pending-seen", "hypertune", "bayesopt"],
    },
}
