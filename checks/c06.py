"""C06 — suggestions are valid, typed configurations; initial points first; no repeats."""
import itertools
import math

from harness import driver_protocol as dp
from harness import gen_domains as gd
from harness.tape import HarnessError, Result, Violation

PROPERTY = "C06"
LEVEL = "exploration"
RULE = (
    "Configuration spaces built from every public domain constructor (1-4 hyper-parameters incl. single-value domains, plus "
    "constants), points_to_evaluate lists (partial, duplicate before and after imputation, empty, None), schedulers FIFO random / grid / "
    "GP Bayesian optimisation, Hyperband stopping / promotion with random and GP multi-fidelity searchers, synchronous Hyperband, DEHB, "
    "PBT, regularised evolution, driven by the protocol driver through histories with results, failures and pending trials (1-4 "
    "workers); finite spaces (size <= 12) are driven to exhaustion; GP histories include NaN metric values (diverged runs stay NaN), all searcher_data policies and grace periods 1-2, and a dedicated sub-check drives tiny finite spaces (<= 9 configurations) to exhaustion with GP searchers, NaN values and scripts that end early. Oracle: every suggested configuration has all keys of the space, "
    "constants unchanged (except the documented max_resource_attr override), every value of exactly the domain's type and a member by "
    "the harness's own predicate; the first suggestions equal the harness's re-implementation of the mid-point imputation (duplicates "
    "removed after imputation) in order; no-repeat searchers never return a configuration whose match string equals an earlier "
    "suggested / pending / failed one; None only when every configuration of a finite space has been suggested; grid search returns "
    "the documented grid exactly once. Non-trivial = a suggestion after >= 3 earlier ones with >= 1 failure or pending trial in the "
    "history, or a finite space driven to exhaustion; distinct = distinct choice tape."
)
ASSUMPTIONS = [
    "quantised integer domains with non-divisible bounds and one-category nearest-neighbour ordinals are excluded (listed known findings of C07)",
    "GP searchers run with cheap options (1 restart, <= 4 L-BFGS iterations, 6 initial candidates); the model is really used after 2 random picks",
]

GP_OPTS = {"num_init_random": 2, "opt_nstarts": 1, "opt_maxiter": 4, "num_init_candidates": 6, "debug_log": False, "opt_skip_init_length": 50}
FINITE_KINDS = ["randint", "choice", "ordinal-equal", "ordinal-nn", "finrange", "logfinrange", "ordinal-default"]


def ok_spec(s):
    if s.domain is None or s.nn_single:
        return False
    if s.kind in ("qrandint", "qlograndint") and not s.params.get("divisible", True):
        return False
    if s.is_int and (abs(s.params["lower"]) > 10**6 or abs(s.params["upper"]) > 10**6):
        return False
    if s.is_float and max(abs(s.params["lower"]), abs(s.params["upper"])) > 1e9:
        return False
    if s.is_fin:
        vals = list(s.domain.values)
        if len(set(vals)) != len(vals):
            return False  # a grid that lists a value twice (integer rounding, lower == upper with size > 1)
    if s.is_float or (s.is_fin and not s.params["cast_int"]):
        # configurations are compared through a 7-digit match string: continuous domains narrower than that are
        # neither finite nor usefully infinite for the no-repeat clause
        lo, up = float(s.params["lower"]), float(s.params["upper"])
        if 0 < up - lo < 1e-3 * max(abs(lo), abs(up), 1e-300):
            return False
    return True


_BIAS = [False]  # sub-check gp-finite: small finite spaces driven to exhaustion with NaN metric values (diverged runs)


_BIG1D = [False]  # sub-check grid-1d: one finite numeric range with up to 40 values, enumerated by grid / random search


def gen_space(t, finite):
    if _BIG1D[0]:
        if t.bool():
            # dense integer grids on a log (or linear) scale starting at a small value: neighbouring grid points round to
            # neighbouring (or equal) integers
            import math

            lo = float(t.int(1, 3))
            up = float(round(math.exp(t.float(math.log(lo + 1.0), math.log(1e6)))))
            s = gd.DomSpec(t.weighted([(3, "logfinrange"), (1, "finrange")]), dict(lower=lo, upper=up, size=t.int(2, 40), cast_int=True))
            gd.build(s)
            if ok_spec(s) and s.finite_size() is not None and 2 <= s.finite_size() <= 40:
                return {"lr": s}, {}
        for _ in range(40):
            s = gd.gen_domspec(t, kinds=["logfinrange", "finrange"], small=False)
            if ok_spec(s) and s.finite_size() is not None and 2 <= s.finite_size() <= 40:
                return {"lr": s}, {}
        raise HarnessError("space")
    n = t.int(1, (2 if _BIAS[0] else 3) if finite else 4)
    names = t.permutation(gd.NAMES)[:n]
    specs = {}
    guard = 0
    while len(specs) < n:
        guard += 1
        if guard > 60:
            raise HarnessError("space")
        s = gd.gen_domspec(t, kinds=FINITE_KINDS if finite else None, small=finite)
        if not ok_spec(s):
            continue
        if finite and (s.finite_size() is None or s.finite_size() > (3 if _BIAS[0] else 4)):
            continue
        specs[names[len(specs)]] = s
    constants = {}
    if t.chance(1, 3):
        constants["dataset"] = t.choice(["cifar", 3])
    return specs, constants


def ref_midpoint(spec):
    p = spec.params
    if spec.kind == "choice":
        return p["categories"][0]
    if spec.kind == "ordinal-equal" or (spec.kind == "ordinal-default" and not _is_nn_default(spec)):
        return p["categories"][len(p["categories"]) // 2]
    if spec.is_cat:
        lo, up = float(p["categories"][0]), float(p["categories"][-1])
    else:
        lo, up = float(p["lower"]), float(p["upper"])
    if spec.is_log and not spec.quantized:
        # (a quantised log domain is encoded linearly by the library: is_log_space is False for it)
        mid = math.exp(0.5 * (math.log(up) + math.log(lo)))
    else:
        mid = 0.5 * (up + lo)
    return ("numeric", mid)


def _is_nn_default(spec):
    c = spec.params["categories"]
    return len(c) > 1 and isinstance(c[0], (int, float)) and all(a < b for a, b in zip(c, c[1:]))


def ref_impute_value(spec, given=None):
    """Harness re-implementation of the mid-point rule (or of casting a given value)."""
    p = spec.params
    if given is not None:
        v = given
    else:
        r = ref_midpoint(spec)
        if not (isinstance(r, tuple) and r and r[0] == "numeric"):
            return r
        v = r[1]
    # cast into the domain
    if spec.is_float:
        return min(max(float(v), p["lower"]), p["upper"])
    if spec.is_int:
        return min(max(int(round(v)), p["lower"]), p["upper"])
    if spec.is_cat:
        cats = p["categories"]
        if v in cats:
            return v
        keyf = (lambda x: math.log(float(x))) if spec.kind == "ordinal-nn-log" else (lambda x: float(x))
        return min(cats, key=lambda c: abs(keyf(c) - keyf(v)))
    vals = list(spec.domain.values)
    keyf = (lambda x: math.log(max(float(x), 1e-300))) if spec.kind == "logfinrange" else (lambda x: float(x))
    vv = min(max(float(v), p["lower"]), p["upper"])
    if len(vals) == 1 or p["lower"] == p["upper"]:
        return vals[0]
    # nearest grid value = nearest grid *index*; an exact tie between two neighbours is rounded half-to-even
    # (Python's round), as the FiniteRange documentation's "rounding" does
    step = (keyf(p["upper"]) - keyf(p["lower"])) / (len(vals) - 1)
    idx = int(min(max(round((keyf(vv) - keyf(p["lower"])) / step), 0), len(vals) - 1))
    return vals[idx]


def acceptable_values(spec, given=None):
    """All values the nearest-value rule may return (exact ties between two neighbours go either way)."""
    primary = ref_impute_value(spec, given)
    if not (spec.is_fin or (spec.is_cat and spec.kind.startswith("ordinal-nn")) or (spec.kind == "ordinal-default" and _is_nn_default(spec)) or spec.is_int):
        return [primary]
    if given is not None:
        v = given
    else:
        r = ref_midpoint(spec)
        if not (isinstance(r, tuple) and r and r[0] == "numeric"):
            return [primary]
        v = r[1]
    if spec.is_int:
        f = float(v)
        if abs(f - math.floor(f) - 0.5) < 1e-9:
            return [int(math.floor(f)), int(math.floor(f)) + 1]
        return [primary]
    if spec.is_fin:
        p = spec.params
        vals = list(spec.domain.values)
        if len(vals) == 1 or p["lower"] == p["upper"]:
            return [primary]
        keyf = (lambda x: math.log(max(float(x), 1e-300))) if spec.kind == "logfinrange" else (lambda x: float(x))
        vv = min(max(float(v), p["lower"]), p["upper"])
        x = (keyf(vv) - keyf(p["lower"])) / ((keyf(p["upper"]) - keyf(p["lower"])) / (len(vals) - 1))
        if abs(x - math.floor(x) - 0.5) < 1e-9:
            i = int(math.floor(x))
            return [vals[min(max(i, 0), len(vals) - 1)], vals[min(max(i + 1, 0), len(vals) - 1)]]
        return [primary]
    cands = list(spec.params["categories"])
    log = spec.kind in ("logfinrange", "ordinal-nn-log")
    keyf = (lambda x: math.log(max(float(x), 1e-300))) if log else (lambda x: float(x))
    try:
        # distances on the unrounded grid (integer grids are rounded after the nearest index is found)
        pos = spec.fin_values() if spec.is_fin else cands
        vv = min(max(float(v), float(spec.params["lower"])), float(spec.params["upper"])) if spec.is_fin else v
        d = [abs(keyf(c) - keyf(vv)) for c in pos]
    except Exception:
        return [primary]
    m = min(d)
    return [c for c, x in zip(cands, d) if x <= m + 1e-9 * max(1.0, m)]


DEHB_TOL = [False]


def values_equal(spec, a, b):
    if DEHB_TOL[0] and spec.is_float and not spec.is_log:
        # DEHB passes every configuration through the [0, 1] encoding (C07: 1e-7 relative to the range)
        sc = max(abs(spec.params["lower"]), abs(spec.params["upper"]), abs(float(a)), abs(float(b)))
        return abs(float(a) - float(b)) <= 1e-7 * sc
    if DEHB_TOL[0] and spec.is_float:
        return abs(float(a) - float(b)) <= 1e-7 * max(abs(float(a)), abs(float(b)))
    if spec.is_float or (spec.is_fin and not spec.params["cast_int"]) or (spec.is_cat and isinstance(a, float)):
        try:
            return abs(float(a) - float(b)) <= 1e-9 * max(abs(float(a)), abs(float(b))) + 1e-300
        except Exception:
            return a == b
    return a == b


def gen_points(t, specs):
    mode = t.weighted([(2, "some"), (1, "none"), (1, "empty")])
    if mode == "none":
        return None
    if mode == "empty":
        return []
    pts = []
    n = t.int(1, 4)
    for _ in range(n):
        if pts and t.chance(1, 4):
            # a duplicate: literally, or spelled differently (defaults written out / left out)
            src = dict(pts[t.index(len(pts))])
            if t.bool():
                for k, s in specs.items():
                    # (only for discrete domains: a float written out may differ from the library's own
                    # mid-point in the last digit, which makes a near-duplicate, not a duplicate)
                    if k not in src and t.bool() and not (s.is_float or (s.is_fin and not s.params["cast_int"]) or (s.is_cat and isinstance(s.params["categories"][0], float))):
                        alts = acceptable_values(s)
                        if len(alts) == 1:
                            src[k] = alts[0]
            pts.append(src)
            continue
        pt = {}
        for k, s in specs.items():
            if t.chance(1, 3):
                continue
            if s.quantized:
                # an initial value of a quantised domain is a point of its grid (anything else is not a member)
                q_, lo_, up_ = s.params["q"], s.params["lower"], s.params["upper"]
                kq = t.int(int(round(lo_ / q_)), int(round(up_ / q_))) * q_
                pt[k] = int(kq) if s.is_int else min(max(float(kq), lo_), up_)
            elif s.is_float:
                pt[k] = t.float(s.params["lower"], s.params["upper"])
            elif s.is_int:
                pt[k] = t.int(s.params["lower"], s.params["upper"])
            elif s.is_cat:
                pt[k] = s.params["categories"][t.index(len(s.params["categories"]))]
            else:
                vals = list(s.domain.values)
                pt[k] = vals[t.index(len(vals))]
        pts.append(pt)
    return pts


def ref_impute(points, specs):
    if points is None:
        points = [dict()]
    out = []
    seen = []
    for pt in points:
        cfg = {k: ref_impute_value(s, pt.get(k)) for k, s in specs.items()}
        cfg["__alt__"] = {k: acceptable_values(s, pt.get(k)) for k, s in specs.items()}
        if any(len(a) > 1 for a in cfg["__alt__"].values()):
            break  # an exact tie in the nearest-value rule: from here on the expected list is not determined
        if any(all(cfg[k] == o[k] and type(cfg[k]) is type(o[k]) or cfg[k] == o[k] for k in specs) for o in seen):
            continue  # duplicates (exactly equal after imputation) are removed
        if any(all(values_equal(specs[k], cfg[k], o[k]) for k in specs) for o in seen):
            # equal up to the last digits (a mid-point computed here vs a grid value written out): whether the library
            # counts this as a duplicate depends on the searcher (DEHB compares encoded vectors); nothing is fixed from here on
            break
        seen.append(cfg)
        out.append(cfg)
        if any(len(a) > 1 for a in cfg["__alt__"].values()):
            break  # an exact tie in the nearest-value rule: which later points count as duplicates is not determined
    return out


def check_config(config, specs, constants, where, mra=None, extra_ok=("trial_id", "elapsed_time")):
    for k, s in specs.items():
        if k not in config:
            raise Violation("suggestion-misses-key", f"{where}: key {k} missing in {config}")
        v = config[k]
        if type(v) is not s.value_type:
            raise Violation(f"suggestion-wrong-type:{s.kind}", f"{where}: {k}={v!r} has type {type(v).__name__}, domain type {s.value_type.__name__}; {s.describe()}")
        r = s.member(v)
        if r is not None:
            raise Violation(f"suggestion-not-member:{s.kind}", f"{where}: {k}={v!r}: {r}; {s.describe()}")
    for k, c in constants.items():
        if k == mra:
            continue
        if k not in config or config[k] != c or type(config[k]) is not type(c):
            raise Violation("constant-changed", f"{where}: constant {k}={c!r}, suggestion has {config.get(k)!r}")


def build_scheduler(t, fam, specs, constants, points, max_t, use_mra):
    from syne_tune.optimizer.baselines import REA
    from syne_tune.optimizer.schedulers import FIFOScheduler, HyperbandScheduler, PopulationBasedTraining
    from syne_tune.optimizer.schedulers.synchronous import (
        DifferentialEvolutionHyperbandScheduler,
        SynchronousHyperbandScheduler,
    )

    cs = gd.space_dict(specs, constants, const_first=t.bool())
    if use_mra:
        cs["epochs"] = max_t
    base = dict(metric="loss", mode=t.choice(["min", "max"]), random_seed=t.int(0, 10**6))
    if points is not None or t.bool():
        base["points_to_evaluate"] = points
    mf = dict(resource_attr="epoch")
    if use_mra:
        mf["max_resource_attr"] = "epochs"
    if fam == "fifo-random":
        return FIFOScheduler(cs, searcher="random", **base)
    if fam == "fifo-grid":
        return FIFOScheduler(cs, searcher="grid", **base)
    if fam == "fifo-bo":
        return FIFOScheduler(cs, searcher="bayesopt", search_options=dict(GP_OPTS), **base)
    if fam in ("hb-stopping", "hb-promotion", "hb-bo-stopping", "hb-bo-promotion"):
        typ = "promotion" if fam.endswith("promotion") else "stopping"
        kw = dict(type=typ, grace_period=1, reduction_factor=t.choice([2, 3]), **mf, **base)
        if not use_mra:
            kw["max_t"] = max_t
        if "bo" in fam:
            kw.update(searcher="bayesopt", search_options=dict(GP_OPTS), searcher_data=t.weighted([(4, "rungs_and_last"), (1, "rungs"), (1, "all")]) if _BIAS[0] else t.choice(["rungs", "all", "rungs_and_last"]))
            if max_t >= 3 and (_BIAS[0] or t.bool()):
                kw["grace_period"] = 2
        else:
            kw.update(searcher="random")
        return HyperbandScheduler(cs, **kw)
    if fam == "pbt":
        return PopulationBasedTraining(cs, resource_attr="epoch", max_t=max_t, population_size=t.int(2, 4), perturbation_interval=1, quantile_fraction=0.5, resample_probability=t.choice([0.25, 0.0, 1.0]), **base)
    if fam == "rea":
        return REA(cs, population_size=t.int(2, 5), sample_size=t.int(1, 3), **base)
    levels = sorted({1, max_t}) if max_t > 1 else [1]
    sizes = list(range(len(levels) + 2, 2, -1))[: len(levels)]
    rungs = list(zip(sizes, levels))
    kw = dict(**mf, **base)
    if not use_mra:
        kw["max_resource_level"] = max_t
    if fam == "sync-hb":
        return SynchronousHyperbandScheduler(cs, bracket_rungs=[rungs], searcher="random", search_options={"debug_log": False}, **kw)
    if fam == "dehb":
        return DifferentialEvolutionHyperbandScheduler(cs, rungs_first_bracket=rungs, search_options={"debug_log": False}, **kw)
    raise HarnessError(fam)


NO_REPEAT = {"fifo-random", "fifo-grid", "fifo-bo", "hb-stopping", "hb-promotion", "hb-bo-stopping", "hb-bo-promotion", "sync-hb", "dehb"}


def run_history(t, fam, finite):
    from syne_tune.optimizer.schedulers.searchers.utils.hp_ranges_factory import make_hyperparameter_ranges

    DEHB_TOL[0] = fam == "dehb"
    specs, constants = gen_space(t, finite)
    points = gen_points(t, specs)
    max_t = t.int(2, 5)
    use_mra = fam in ("hb-promotion", "hb-bo-promotion", "sync-hb", "dehb") and t.bool()
    try:
        sched = build_scheduler(t, fam, specs, constants, points, max_t, use_mra)
    except AssertionError as e:
        if fam == "rea" and "diversity" in str(e):
            return Result([fam, "constructor-rejected"], False, None)
        raise
    tk = dp.make_time_keeper()
    inner = getattr(sched, "scheduler", sched)
    if hasattr(inner, "set_time_keeper"):
        inner.set_time_keeper(tk)
    hp = make_hyperparameter_ranges(gd.space_dict(specs, {}))
    space_size = 1
    for s in specs.values():
        dv = _domain_values(s)
        space_size = None if (dv is None or space_size is None) else space_size * len(set(map(repr, dv)))
    if space_size is not None and space_size > 40:
        space_size_known = space_size
    all_ms = None
    if space_size is not None and space_size <= 200:
        all_ms = {hp.config_to_match_string(dict(zip(specs, combo))) for combo in itertools.product(*[_domain_values(s) for s in specs.values()])}
    want_first = ref_impute(points, specs)
    curve = {}

    gp = "bo" in fam
    nan_values = gp and (_BIAS[0] or t.chance(1, 3))  # diverged runs report NaN; the model-based searchers document that they skip such values

    def result_fn(tid, config, level):
        if (tid, level) not in curve:
            diverged = any(v != v for (tid_, lv_), v in curve.items() if tid_ == tid and lv_ < level)  # a diverged run stays diverged
            curve[(tid, level)] = float("nan") if nan_values and (diverged or t.chance(1, 3 if _BIAS[0] else 5)) else t.float(0.0, 1.0)
        return {"loss": curve[(tid, level)]}

    def cap(config):
        return int(config["epochs"]) if use_mra and "epochs" in config else max_t

    d = dp.ProtocolDriver(
        sched, t, result_fn, level_cap_fn=cap, n_workers=t.int(1, 4), max_trials=(space_size + 3) if (finite and space_size) else t.int(3, 10),
        max_steps=(70 if _BIAS[0] else 30) if gp else (300 if _BIG1D[0] else 120 if finite else 60), checkpointing=True, allow_fail=t.chance(1, 3) and fam not in ("dehb", "sync-hb"), time_keeper=tk, early_complete=_BIAS[0],
    )
    labels = {fam, "finite" if finite else "mixed"}
    if nan_values:
        labels.add("nan-metric-values")
    started = []  # (trial, config, match string)
    seen_ms = {}
    n_first = 0
    nontrivial = False
    exhausted_ok = False
    while True:
        # PBT: a pending exploit decision makes the next suggestion a (perturbed) clone, not a searcher suggestion
        clone_due = len(getattr(sched, "_trial_decisions_stack", ())) > 0
        try:
            ev = d.step()
        except Violation as v:
            if v.kind == "resume-of-non-paused-trial":
                break
            raise
        if ev is None:
            break
        if ev.op != "suggest":
            continue
        where = f"{fam} space={ {k: s.describe() for k, s in specs.items()} } points={points} suggestion #{len(started)}"
        if ev.kind == "none":
            if space_size is None and fam == "fifo-grid":
                break  # grid search on a continuous space ends when its (finite) grid is used up
            if space_size is None:
                raise Violation("none-on-infinite-space", where)
            distinct = len(seen_ms) if all_ms is None else len(all_ms & set(seen_ms))
            if all_ms is not None:
                space_size = len(all_ms)
            if fam == "fifo-grid":
                pass  # judged below against the documented grid
            elif distinct < space_size:
                kind = "none-before-exhaustion:bounded-random-retries"
                raise Violation(kind, f"{where}: None after {distinct} distinct configurations, space has {space_size}; suggested {sorted(seen_ms)}")
            exhausted_ok = True
            labels.add("exhaustion")
            break
        cfg = ev.config
        if ev.kind == "resume":
            if cfg is not None:
                check_config(cfg, specs, constants, where + " (resume)", mra="epochs" if use_mra else None)
            continue
        check_config(cfg, specs, constants, where, mra="epochs" if use_mra else None)
        ms = hp.config_to_match_string({k: cfg[k] for k in specs})
        # (PBT's exploit step clones a running trial with a perturbed configuration: not a searcher suggestion)
        is_clone = ev.get("checkpoint_trial_id") is not None or (fam == "pbt" and clone_due)
        idx = sum(1 for x in started if not x[3])
        if not is_clone and idx < len(want_first):
            w = want_first[idx]
            if not all(any(values_equal(specs[k], cfg[k], a) for a in w["__alt__"][k]) for k in specs):
                raise Violation(
                    "initial-points-not-first-in-order",
                    f"{where}: suggested { {k: cfg[k] for k in specs} }, expected initial configuration #{idx} = { {k: w[k] for k in specs} } (alternatives at exact ties {w['__alt__']})",
                )
            n_first += 1
            labels.add("initial-point")
        from_user_list = (not is_clone) and idx < len(points or [0])
        if fam in NO_REPEAT and not is_clone and not from_user_list:
            # (user-supplied initial configurations which are distinct are all suggested, even if they
            # agree in the first seven digits of every value)
            if ms in seen_ms:
                prev = seen_ms[ms]
                # values of the earlier trial which the data policy hands to the searcher (FIFO: all; Hyperband 'rungs': rung levels
                # and max_t; 'all' / 'rungs_and_last': every value)
                policy = getattr(inner, "searcher_data", "all")
                rung_set = set(getattr(inner, "rung_levels", []) or []) | {getattr(inner, "max_t", None)}
                lv_prev = sorted(lv_ for (tid_, lv_) in curve if tid_ == prev)
                vals = [
                    curve[(prev, lv_)] for lv_ in lv_prev
                    if policy != "rungs" or lv_ in rung_set
                ]
                if gp and prev not in d.running and prev not in d.failed and (not vals or all(v != v for v in vals)):
                    # listed finding: a trial which has ended and of which no finite value reached the searcher (the model-based
                    # searchers skip NaN; with 'rungs' a script may end below the first rung level) leaves no trace
                    raise Violation("repeated-suggestion:ended-trial-without-observation", f"{where}: {cfg} equals the configuration of trial {prev}, which has ended and of which no finite value reached the searcher (policy {policy}, values handed over: {vals})")
                raise Violation(
                    f"repeated-suggestion:{fam}",
                    f"{where}: {cfg} equals the configuration of trial {seen_ms[ms]} (state: {'failed' if seen_ms[ms] in d.failed else 'pending/running' if seen_ms[ms] in d.running else 'finished'})",
                )
        seen_ms.setdefault(ms, ev.trial_id)
        started.append((ev.trial_id, cfg, ms, is_clone))
        if len(started) > 3 and (d.n_fails > 0 or len(d.running) > 1):
            nontrivial = True
        if gp and len(started) > 2 + len(want_first):
            labels.add("model-based-suggestion")
        if is_clone:
            labels.add("pbt-explore")
    if fam == "fifo-grid" and finite and exhausted_ok:
        grid = set()
        dom_vals = [_domain_values(s) for s in specs.values()]
        for combo in itertools.product(*dom_vals):
            grid.add(hp.config_to_match_string(dict(zip(specs, combo))))
        got = [x[2] for x in started]
        if len(got) != len(set(got)) or set(got) != grid:
            raise Violation("grid-not-enumerated-exactly-once", f"space={ {k: s.describe() for k, s in specs.items()} } points={points}: suggested {len(got)} ({len(set(got))} distinct), grid has {len(grid)}")
        labels.add("grid-enumerated")
    if exhausted_ok:
        nontrivial = True
    if d.n_fails:
        labels.add("failure")
    return Result(sorted(labels), nontrivial, {"family": fam, "space": {k: s.describe() for k, s in specs.items()}, "points_to_evaluate": points, "suggested": [x[1] for x in started[:6]]})


def _domain_values(s):
    """Values the domain can produce by sampling (None = infinitely many)."""
    if s.quantized:
        q, lo, up = s.params["q"], s.params["lower"], s.params["upper"]
        k0, k1 = int(round(lo / q)), int(round(up / q))
        vals = [k * q for k in range(k0, k1 + 1)]
        return [int(v) for v in vals] if s.is_int else [min(max(float(v), lo), up) for v in vals]
    if s.is_float:
        return [s.params["lower"]] if s.params["lower"] == s.params["upper"] else None
    if s.is_cat:
        return list(dict.fromkeys(s.params["categories"]))
    if s.is_fin:
        return list(dict.fromkeys(s.domain.values))
    if s.is_int:
        return list(range(s.params["lower"], s.params["upper"] + 1))
    return [s.params["lower"]]


def case_modelfree(t):
    fam = t.choice(["fifo-random", "fifo-grid", "hb-stopping", "hb-promotion", "sync-hb", "dehb", "pbt", "rea"])
    finite = t.chance(1, 2) if fam not in ("pbt", "rea") else t.chance(1, 4)
    return run_history(t, fam, finite)


def case_grid1d(t):
    _BIG1D[0] = True
    try:
        return run_history(t, t.weighted([(3, "fifo-grid"), (1, "fifo-random")]), True)
    finally:
        _BIG1D[0] = False


def case_gp(t):
    _BIAS[0] = False
    fam = t.choice(["fifo-bo", "hb-bo-stopping", "hb-bo-promotion"])
    return run_history(t, fam, t.chance(1, 3))


def case_gp_finite(t):
    _BIAS[0] = True
    try:
        return run_history(t, t.weighted([(3, "hb-bo-stopping"), (3, "hb-bo-promotion"), (1, "fifo-bo")]), True)
    finally:
        _BIAS[0] = False


SUBCHECKS = {
    "model-free": {"fn": case_modelfree, "quick": 30000, "thorough": 500000, "required": ["exhaustion", "initial-point", "failure", "pbt-explore", "grid-enumerated", "dehb", "rea"]},
    "grid-1d": {"fn": case_grid1d, "quick": 3000, "thorough": 60000, "required": ["grid-enumerated", "exhaustion"]},
    "gp": {"fn": case_gp, "quick": 640, "thorough": 10000, "min_per_shard": 10, "required": ["model-based-suggestion", "initial-point"]},
    "gp-finite": {"fn": case_gp_finite, "quick": 1600, "thorough": 30000, "min_per_shard": 10, "required": ["model-based-suggestion", "exhaustion", "nan-metric-values"]},
}
