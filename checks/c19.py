"""C19 — multi-objective ranking is Pareto-consistent and MOASHA follows it."""
import itertools
import math

import numpy as np

from harness.tape import HarnessError, Result, Violation

PROPERTY = "C19"
LEVEL = "exploration"
RULE = (
    "Point sets N<=14, D<=5 on a small integer grid (many ties/duplicates) or general floats, preferred dim and "
    "max_items from the tape; oracle: brute-force dominance for pareto_efficient, brute-force layer peeling for "
    "nondominated_sort (permutation / prefix, layer order, flatten on/off). MOASHA: generated reduction factor, grace "
    "period, max_t, brackets, per-metric mode lists, priorities (NonDominated, FixedObjective, LinearScalarization) and "
    "interleavings of up to 10 trials reporting consecutive levels; oracle: reference rung book-keeping written from the "
    "doc-string, decision must be justified by some layer-consistent order. All 2-D point sets with N<=4 on a 3x3 grid are "
    "enumerated completely. Non-trivial = N>=3 with a dominated point and a tie (sort) / a decision at a rung with >=2 "
    "earlier entries (MOASHA); distinct = distinct choice tape."
)
ASSUMPTIONS = [
    "trials report consecutive resource levels 1, 2, 3, ... as the tuning loop delivers them",
    "inside one Pareto layer any order is accepted (the property only fixes the order between layers)",
    "with NonDominatedPriority(max_num_samples=k) the items the sort does not list share position k (the comment in priority_unsafe)",
]


def brute_pareto(X):
    n = len(X)
    out = []
    for i in range(n):
        dom = False
        for j in range(n):
            if j != i and all(X[j][d] <= X[i][d] for d in range(len(X[i]))) and any(
                X[j][d] < X[i][d] for d in range(len(X[i]))
            ):
                dom = True
                break
        out.append(not dom)
    return out


def brute_layers(X):
    """layer index of every point by repeated peeling of the Pareto front"""
    n = len(X)
    layer = [None] * n
    remaining = list(range(n))
    k = 0
    while remaining:
        sub = [X[i] for i in remaining]
        mask = brute_pareto(sub)
        for i, m in zip(remaining, mask):
            if m:
                layer[i] = k
        remaining = [i for i, m in zip(remaining, mask) if not m]
        k += 1
    return layer


def gen_points(t, nmax=14, dmax=5):
    n = t.int(1, nmax)
    d = t.int(1, dmax)
    grid = not t.chance(1, 3)
    X = []
    for _ in range(n):
        if grid:
            X.append([float(t.int(0, 3)) for _ in range(d)])
        else:
            X.append([t.float(-10.0, 10.0) for _ in range(d)])
    if not grid and t.bool() and n >= 2:
        # force some duplicates / ties
        i, j = t.index(n), t.index(n)
        X[i] = list(X[j])
    return X, grid


def check_sort(X, dim, max_items, flatten, nds):
    n = len(X)
    arr = np.array(X, dtype=float)
    res = nds(arr, dim=dim, max_items=max_items, flatten=flatten)
    layer = brute_layers(X)
    if flatten:
        flat = list(res)
    else:
        flat = [i for lay in res for i in lay]
    want_len = n if max_items is None else min(n, max_items)
    if len(flat) != want_len or len(set(flat)) != len(flat) or any((not 0 <= int(i) < n) for i in flat):
        raise Violation("sort-not-permutation", f"X={X} dim={dim} max_items={max_items}: {res}")
    flat = [int(i) for i in flat]
    for a in range(len(flat) - 1):
        if layer[flat[a]] > layer[flat[a + 1]]:
            raise Violation("sort-layer-order", f"X={X} dim={dim} max_items={max_items}: {res} layers={layer}")
    if flat:
        last = layer[flat[-1]]
        omitted = [i for i in range(n) if i not in flat]
        if any(layer[i] < last for i in omitted):
            raise Violation("sort-prefix-skips-better", f"X={X} max_items={max_items}: {res} layers={layer}")
    if not flatten:
        for lay in res:
            if len({layer[int(i)] for i in lay}) != 1:
                raise Violation("sort-layers-mixed", f"X={X}: {res} layers={layer}")
    return layer


def case_sort(t):
    from syne_tune.optimizer.schedulers.multiobjective.non_dominated_priority import (
        nondominated_sort,
        pareto_efficient,
    )

    X, grid = gen_points(t)
    n, d = len(X), len(X[0])
    arr = np.array(X, dtype=float)
    mask = pareto_efficient(arr)
    want = brute_pareto(X)
    if mask.shape != (n,) or [bool(x) for x in mask] != want:
        raise Violation("pareto-filter", f"X={X}: got {[bool(x) for x in mask]} want {want}")
    dim = t.weighted([(2, 0), (1, None), (2, "any")])
    if dim == "any":
        dim = t.int(0, d - 1)
    max_items = t.weighted([(3, None), (2, "k")])
    if max_items == "k":
        max_items = t.int(1, n + 2)
    flatten = not t.chance(1, 4)
    layer = check_sort(X, dim, max_items, flatten, nondominated_sort)
    ties = len({tuple(x) for x in X}) < n or any(
        X[i][k] == X[j][k] for i in range(n) for j in range(i) for k in range(d)
    )
    dominated = not all(want)
    labels = ["grid" if grid else "floats", f"layers-{min(max(layer) + 1, 4)}"]
    if max_items is not None:
        labels.append("max_items")
    if dim is None:
        labels.append("dim-none")
    if not flatten:
        labels.append("flatten-off")
    if ties:
        labels.append("ties")
    return Result(labels, n >= 3 and dominated and ties, {"X": X, "dim": dim, "max_items": max_items, "layers": layer})


# exhaustive: all 2-D point sets with N <= 4 on a 3x3 grid ---------------------
def enum_small(tier):
    pts = list(itertools.product(range(3), repeat=2))
    for n in range(1, 5):
        for combo in itertools.product(range(9), repeat=n):
            yield [n] + list(combo)


def case_small(t):
    from syne_tune.optimizer.schedulers.multiobjective.non_dominated_priority import (
        nondominated_sort,
        pareto_efficient,
    )

    pts = list(itertools.product(range(3), repeat=2))
    n = t.int(1, 4)
    X = [[float(v) for v in pts[t.int(0, 8)]] for _ in range(n)]
    arr = np.array(X)
    mask = pareto_efficient(arr)
    want = brute_pareto(X)
    if [bool(x) for x in mask] != want:
        raise Violation("pareto-filter", f"X={X}: got {[bool(x) for x in mask]} want {want}")
    layer = None
    for dim in (0, 1):
        for max_items in (None, 1, 2, 3):
            layer = check_sort(X, dim, max_items, True, nondominated_sort)
    dominated = not all(want)
    return Result([f"n-{n}"], n >= 3 and dominated, {"X": X, "layers": layer})


# MOASHA -----------------------------------------------------------------------
class RefBracket:
    def __init__(self, min_t, max_t, rf, s):
        self.levels = []
        k = 0
        while True:
            m = min_t * rf ** (k + s)
            if m >= max_t * (1 + 1e-9):
                break
            self.levels.append(m)
            k += 1
            if k > 200:
                raise HarnessError("rung levels")
        self.recorded = {m: {} for m in self.levels}

    def rung_for(self, trial_id, cur_iter):
        for m in sorted(self.levels, reverse=True):
            if cur_iter >= m and trial_id not in self.recorded[m]:
                return m
        return None


def allowed_decisions(prio_kind, prio_arg, V, rf, max_items=None):
    """V: list of vectors (own last), already in minimisation convention.
    Returns set of acceptable decisions."""
    n = len(V)
    if n == 1:
        return {"CONTINUE"}
    thr = 1 / rf
    own = V[-1]
    if prio_kind == "nondominated":
        layer = brute_layers(V)
        a = sum(1 for x in layer if x < layer[-1])
        b = sum(1 for x in layer if x == layer[-1])
        out = set()
        for pos in range(a, a + b):
            # with max_num_samples = k only the first k items of the sort are ranked, all others share the position k
            if max_items is not None and pos >= max_items:
                pos = max_items
            out.add("CONTINUE" if pos / n <= thr else "STOP")
        return out
    if prio_kind == "fixed":
        pri = [v[prio_arg] for v in V]
    else:
        w = prio_arg
        pri = [sum(x * wi for x, wi in zip(v, w)) / len(v) for v in V]
    scale = max(abs(p) for p in pri) + 1.0
    tol = 1e-9 * scale
    k_lo = sum(1 for p in pri if p < pri[-1] - tol)
    k_hi = sum(1 for p in pri[:-1] if p < pri[-1] + tol)
    out = set()
    for k in {k_lo, k_hi}:
        out.add("CONTINUE" if k / n <= thr else "STOP")
    return out


def case_moasha(t):
    from syne_tune.backend.trial_status import Trial
    from syne_tune.config_space import uniform
    from syne_tune.optimizer.schedulers.multiobjective.moasha import MOASHA
    from syne_tune.optimizer.schedulers.multiobjective.multiobjective_priority import (
        FixedObjectivePriority,
        LinearScalarizationPriority,
        NonDominatedPriority,
    )
    import datetime

    d = t.int(1, 4)
    metrics = [f"m{i}" for i in range(d)]
    shuffle_keys = t.bool()
    mode_kind = t.weighted([(2, "min"), (1, "max"), (1, None), (3, "list")])
    if mode_kind == "list":
        mode = [t.choice(["min", "max"]) for _ in range(d)]
        signs = [1.0 if m == "min" else -1.0 for m in mode]
    else:
        mode = mode_kind
        signs = [(-1.0 if mode == "max" else 1.0)] * d
    rf = t.weighted([(3, 2), (3, 3), (2, 4), (1, 5), (1, 2.5), (1, 1.5)])
    grace = t.weighted([(4, 1), (2, 2), (1, 3)])
    max_t = t.weighted([(2, 9), (2, 8), (1, 27), (1, 16), (2, None)])
    if max_t is None:
        max_t = t.int(grace, 30)
    max_t = max(max_t, grace)
    brackets = t.weighted([(3, 1), (2, 2), (1, 3)])
    # MOASHA requires at least one rung per bracket (int(log(max_t/min_t)/log(rf) - s + 1) >= 0)
    max_samples = None
    pk = t.weighted([(4, "nondominated"), (2, "fixed"), (2, "linear")])
    if pk == "nondominated":
        pdim = t.weighted([(2, 0), (1, "any")])
        if pdim == "any":
            pdim = t.int(0, d - 1)
        prio = NonDominatedPriority(dim=pdim) if t.bool() else None
        if prio is None:
            pdim = 0
        elif t.chance(1, 3):
            max_samples = t.int(1, 6)
            prio = NonDominatedPriority(dim=pdim, max_num_samples=max_samples)
        parg = pdim
    elif pk == "fixed":
        parg = t.int(0, d - 1)
        prio = FixedObjectivePriority(dim=parg)
    else:
        parg = [t.choice([1.0, 0.5, 0.25, 2.0]) for _ in range(d)]
        prio = LinearScalarizationPriority(weights=parg)
    kwargs = dict(
        config_space={"x": uniform(0, 1)},
        metrics=metrics,
        time_attr="epoch",
        max_t=max_t,
        grace_period=grace,
        reduction_factor=rf,
        brackets=brackets,
    )
    if mode is not None:
        kwargs["mode"] = mode
    if prio is not None:
        kwargs["multiobjective_priority"] = prio
    sched = MOASHA(**kwargs)
    ref = [RefBracket(grace, max_t, rf, s) for s in range(brackets)]
    n_trials = t.int(1, 10)
    grid = not t.chance(1, 3)
    trials = {}
    cursor = {}
    bracket_of = {}
    alive = []
    next_id = 0
    events = []
    labels = [pk, f"brackets-{brackets}", "grid" if grid else "floats"] + (["max_num_samples"] if max_samples is not None else [])
    nontrivial = False
    steps = 0
    while (alive or next_id < n_trials) and steps < 200:
        steps += 1
        if next_id < n_trials and (not alive or len(alive) < 4 and t.chance(1, 3)):
            tr = Trial(trial_id=next_id, config={"x": 0.5}, creation_time=datetime.datetime(2024, 1, 1))
            sched.on_trial_add(tr)
            b = sched._trial_info[next_id]
            idx = [i for i, bb in enumerate(sched._brackets) if bb is b]
            if len(idx) != 1:
                raise HarnessError("bracket lookup")
            bracket_of[next_id] = idx[0]
            trials[next_id] = tr
            cursor[next_id] = 0
            alive.append(next_id)
            events.append(["add", next_id, idx[0]])
            next_id += 1
            continue
        tid = alive[t.index(len(alive))]
        cursor[tid] += 1
        it = cursor[tid]
        if grid:
            vals = [float(t.int(0, 3)) for _ in range(d)]
        else:
            vals = [t.float(-5.0, 5.0) for _ in range(d)]
        # a training script reports its metrics in whatever key order it likes, with other keys in between
        items = [("epoch", it)] + list(zip(metrics, vals)) + [("other", 1.5)]
        if shuffle_keys:
            items = t.permutation(items)
        result = dict(items)
        dec = sched.on_trial_result(trials[tid], dict(result))
        if dec not in ("CONTINUE", "STOP"):
            raise Violation("moasha-illegal-decision", f"{dec!r}")
        events.append(["report", tid, it, vals, dec])
        if it >= max_t:
            if dec != "STOP":
                raise Violation("moasha-no-stop-at-max-t", f"max_t={max_t} iter={it}: {dec}; events={events[-6:]}")
            sched.on_trial_remove(trials[tid])
            alive.remove(tid)
            continue
        rb = ref[bracket_of[tid]]
        m = rb.rung_for(tid, it)
        if m is None:
            if dec != "CONTINUE":
                raise Violation(
                    "moasha-decision-outside-rung",
                    f"rf={rf} grace={grace} max_t={max_t} bracket={bracket_of[tid]} levels={rb.levels} iter={it}: {dec}; events={events[-8:]}",
                )
        else:
            own = [v * s for v, s in zip(vals, signs)]
            V = list(rb.recorded[m].values()) + [own]
            ok = allowed_decisions(pk, parg, V, rf, max_items=max_samples)
            if len(V) >= 3:
                nontrivial = True
                labels.append("decision-with-2-earlier")
            if dec == "STOP":
                labels.append("stop-at-rung")
            if dec not in ok:
                raise Violation(
                    f"moasha-decision:{pk}",
                    f"rf={rf} mode={mode} priority={pk}/{parg} rung={m} recorded(min-convention)={V} -> {dec}, allowed {sorted(ok)}",
                )
            if len(ok) == 2:
                labels.append("either-accepted")
            rb.recorded[m][tid] = own
        if dec == "STOP":
            sched.on_trial_remove(trials[tid])
            alive.remove(tid)
    labels = sorted(set(labels))
    return Result(
        labels,
        nontrivial,
        {"rf": rf, "grace": grace, "max_t": max_t, "brackets": brackets, "mode": mode, "priority": [pk, parg], "events": events[:25]},
    )


SUBCHECKS = {
    "sort": {"fn": case_sort, "quick": 40000, "thorough": 1000000, "required": ["ties", "max_items", "dim-none", "flatten-off"]},
    "small-exhaustive": {"fn": case_small, "enumerate": enum_small, "quick": 1, "thorough": 1},
    "moasha": {"fn": case_moasha, "quick": 12000, "thorough": 300000, "required": ["decision-with-2-earlier", "stop-at-rung", "nondominated", "fixed", "linear", "max_num_samples"]},
}
