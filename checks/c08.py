"""C08 — GP posterior, likelihood and incremental updates equal the dense definition."""
import math

import numpy as np

from harness.ref_gp import RefKernel, dense_posterior
from harness.tape import HarnessError, Result, Violation

PROPERTY = "C08"
LEVEL = "exploration"
RULE = (
    "Generated data sets (n 1..12 training points, d 1..4, 1..6 test points in the unit cube incl. exact duplicates and near-duplicates, "
    "target vector or fantasy matrix with up to 4 columns), kernels Matern-5/2 (ARD on/off, covariance scale on/off), Matern o Kumaraswamy "
    "warping (one or two coordinate ranges), product kernel, exponential-decay resource kernel (as plain kernel over (x, r)), scalar or "
    "zero mean, parameters log-uniform inside their box constraints incl. the corners, noise variance 1e-9..1e2. Oracle: harness's dense "
    "numpy re-implementation — L L^T - K = c I with c >= sigma^2 (== sigma^2 when a plain Cholesky succeeds), predictive means / variances "
    "(floor 1e-12, <= prior variance), negative log marginal likelihood, sample covariance of 4000 joint samples within 7 standard "
    "errors, incremental update / sample_and_update == recomputation on the enlarged data, fantasy columns independent; tolerance "
    "50 eps cond(K + c I) scale + 3e-9 scale, cases whose tolerance exceeds 1e-3 are counted as ill-conditioned and skipped. "
    "Non-trivial = n >= 2, >= 2 test points and ARD or covariance scale != 1 or >= 2 fantasy columns; distinct = distinct choice tape."
)
ASSUMPTIONS = [
    "for the exponential-decay kernel the matrix is taken from the kernel object (required symmetric, PSD to round-off, diagonal(X) == diag(K(X, X))); the dense GP algebra is then checked with it",
    "the statistical clause (joint samples) uses 7 standard errors of the sample covariance (false-alarm probability < 1e-9 per entry)",
]

from harness.gen_gp import build_kernel, draw_param, gen_points, resource_value  # noqa: E402


def case(t):
    from syne_tune.optimizer.schedulers.searchers.bayesopt.gpautograd.mean import ScalarMeanFunction, ZeroMeanFunction
    from syne_tune.optimizer.schedulers.searchers.bayesopt.gpautograd.posterior_state import (
        GaussProcPosteriorState,
        IncrementalUpdateGPPosteriorState,
    )

    d = t.int(1, 4)
    n = t.weighted([(1, 1), (2, 2), (3, 4), (2, 7), (1, 12), (3, None)])
    if n is None:
        n = t.int(1, 12)
    ns = t.int(1, 6)
    m = t.weighted([(4, 1), (2, 2), (1, 4)])
    kernel, ref0, klabel, din, kparams = build_kernel(t, d)
    # the posterior code also accepts the kernel as a pair (kernel, covariance scale)
    ext = math.exp(t.float(math.log(0.05), math.log(20.0))) if t.chance(1, 4) else None
    kern_arg = kernel if ext is None else (kernel, np.array([ext]))
    escale = 1.0 if ext is None else ext
    ref = None if ref0 is None else (lambda A, B: escale * ref0(A, B))

    def kmat(A, B):
        return escale * np.array(kernel(A, B))

    def kdiag(A):
        return escale * np.array(kernel.diagonal(A)).reshape(-1)

    Xl = gen_points(t, n, d)
    Xs = gen_points(t, ns, d, base=Xl)
    if "expdecay" in klabel:
        Xl = [x + [resource_value(t, klabel)] for x in Xl]
        Xs = [x + [resource_value(t, klabel)] for x in Xs]
    X = np.array(Xl, dtype=float).reshape(n, din)
    Xt = np.array(Xs, dtype=float).reshape(ns, din)
    Y = np.array([[t.float(-2.0, 2.0) for _ in range(m)] for _ in range(n)], dtype=float)
    if t.bool():
        mean = ScalarMeanFunction()
        mean.collect_params().initialize()
        mval = t.float(-3.0, 3.0)
        mean.set_params({"mean_value": mval})
    else:
        mean = ZeroMeanFunction()
        mval = 0.0
    sig2 = t.weighted([(3, 1e-3), (1, 1e-9), (1, 1.0), (1, 100.0), (4, None)])
    if sig2 is None:
        sig2 = math.exp(t.float(math.log(1e-9), math.log(1e2)))
    noise = np.array([sig2])
    labels = {klabel, f"fantasies-{m}" if m > 1 else "single-target"}
    if ext is not None:
        labels.add("kernel-as-pair")
    ctx = f"kernel={klabel} pair_scale={ext} params={ {k: float(v) if v is not None and not isinstance(v, str) else v for k, v in kparams.items()} } mean={mval} sigma2={sig2} n={n} d={din} n*={ns} m={m}"
    # ---- kernel matrices: library vs textbook
    K_lib = kmat(X, X)
    Ks_lib = kmat(X, Xt)
    Kss_lib = kmat(Xt, Xt)
    kdiag_lib = kdiag(Xt)
    scale = max(1.0, float(np.max(np.abs(K_lib))), float(np.max(np.abs(kdiag_lib))))
    ib_max = max([float(v) for k_, v in kparams.items() if "inv_bw" in k_ and v is not None] + [1.0])
    # the library smooths sqrt(D) as sqrt(D + 1e-9) (deviation <= 5e-10 cs, attained at D = 0) and expands squared distances (cancellation ~ eps ib^2 d)
    ktol = (6e-10 + 1e-13 * ib_max**2 * din) * scale * (2 if "product" in klabel else 1)
    if ref is not None:
        for nm, a, b in (("K(X,X)", K_lib, ref(X, X)), ("K(X,X*)", Ks_lib, ref(X, Xt)), ("K(X*,X*)", Kss_lib, ref(Xt, Xt))):
            if a.shape != b.shape or not np.allclose(a, b, rtol=1e-12, atol=ktol):
                raise Violation(f"kernel-matrix:{klabel}", f"{ctx}: {nm} differs from the textbook kernel by {float(np.max(np.abs(a - b)))} (tolerance {ktol})")
        kss = np.diag(ref(Xt, Xt)).copy()
    else:
        kss = np.diag(Kss_lib).copy()
    # the GP algebra below is checked on the kernel matrices just validated
    K, Ks, Kss = K_lib, Ks_lib, Kss_lib
    if not np.allclose(K, K.T, rtol=1e-12, atol=1e-12 * scale):
        raise Violation(f"kernel-not-symmetric:{klabel}", ctx)
    if ref is None:
        w = np.linalg.eigvalsh(0.5 * (K + K.T))
        if w.min() < -1e-8 * scale:
            raise Violation(f"kernel-not-psd:{klabel}", f"{ctx}: smallest eigenvalue {w.min()}")
        Kst = kmat(Xt, X)
        if not np.allclose(Kst, Ks.T, rtol=1e-10, atol=1e-12 * scale):
            raise Violation(f"kernel-not-symmetric:{klabel}", f"{ctx}: K(X*,X) != K(X,X*)^T")
    if not np.allclose(kdiag_lib, kss, rtol=1e-12, atol=ktol):
        raise Violation(f"kernel-diagonal:{klabel}", f"{ctx}: diagonal(X*) = {kdiag_lib} but diag K(X*,X*) = {kss}")
    kss = kdiag_lib
    # ---- posterior state
    state = IncrementalUpdateGPPosteriorState(features=X, targets=Y, mean=mean, kernel=kern_arg, noise_variance=noise)
    L = np.array(state.chol_fact)
    M = L @ L.T - K
    off = M - np.diag(np.diag(M))
    cvals = np.diag(M)
    c = float(np.mean(cvals))
    if np.max(np.abs(off)) > 1e-8 * scale + 1e-10 * abs(c):
        raise Violation("jitter-off-diagonal", f"{ctx}: L L^T - K has off-diagonal entries up to {float(np.max(np.abs(off)))}")
    if np.max(np.abs(cvals - c)) > 1e-8 * scale + 1e-9 * abs(c):
        raise Violation("jitter-not-spherical", f"{ctx}: diag(L L^T - K) = {cvals}")
    if c < sig2 * (1 - 1e-6) - 1e-8 * scale:
        raise Violation("noise-variance-reduced", f"{ctx}: L L^T = K + {c} I, sigma^2 = {sig2}")
    A0 = K + sig2 * np.eye(n)
    cond0 = np.linalg.cond(A0)
    plain_ok = True
    try:
        np.linalg.cholesky(A0)
    except np.linalg.LinAlgError:
        plain_ok = False
    if plain_ok and cond0 < 1e10 and abs(c - sig2) > 1e-6 * sig2 + 1e-8 * scale:
        raise Violation("jitter-added-although-cholesky-succeeds", f"{ctx}: c = {c}, sigma^2 = {sig2}, cond = {cond0}")
    if c > sig2 * (1 + 1e-6) + 1e-8 * scale:
        labels.add("jitter-added")
    mean_tr = np.full(n, mval)
    mean_te = np.full(ns, mval)
    means_ref, var_ref, cov_ref, nlml_ref, cond = dense_posterior(K, Ks, kss, Kss, mean_tr, mean_te, Y, np.full(n, c))
    yscale = max(1.0, float(np.max(np.abs(Y))) + abs(mval))
    tol = 50 * np.finfo(float).eps * cond * scale * yscale + 3e-9 * scale * yscale
    if tol > 1e-3:
        return Result(sorted(labels) + ["ill-conditioned-skipped"], False, None)
    pm, pv = state.predict(Xt)
    pm, pv = np.array(pm), np.array(pv)
    if pm.shape != (ns, m) or pv.shape != (ns,):
        raise Violation("predict-shape", f"{ctx}: {pm.shape} {pv.shape}")
    if not np.allclose(pm, means_ref, rtol=tol, atol=tol):
        raise Violation("posterior-mean", f"{ctx}: max deviation {float(np.max(np.abs(pm - means_ref)))} (tolerance {tol}); library {pm.tolist()} dense {means_ref.tolist()}")
    var_want = np.maximum(var_ref, 1e-12)
    if not np.allclose(pv, var_want, rtol=tol, atol=tol):
        raise Violation("posterior-variance", f"{ctx}: library {pv.tolist()} dense {var_want.tolist()} (tolerance {tol})")
    if np.any(pv < 1e-12 * (1 - 1e-9)) or np.any(pv > kss + tol):
        raise Violation("posterior-variance-out-of-range", f"{ctx}: variances {pv.tolist()}, prior {kss.tolist()}")
    if m == 1:
        nl = float(state.neg_log_likelihood())
        if abs(nl - nlml_ref) > tol * max(1.0, n) + (50 * np.finfo(float).eps * cond + 1e-9) * abs(nlml_ref):
            raise Violation("neg-log-marginal-likelihood", f"{ctx}: library {nl}, dense {nlml_ref}")
    else:
        # fantasy columns are independent target vectors sharing one covariance
        j = t.index(m)
        s1 = GaussProcPosteriorState(features=X, targets=Y[:, j : j + 1], mean=mean, kernel=kern_arg, noise_variance=noise)
        pm1, pv1 = s1.predict(Xt)
        if not np.allclose(np.array(pm1)[:, 0], pm[:, j], rtol=tol, atol=tol) or not np.allclose(np.array(pv1), pv, rtol=tol, atol=tol):
            raise Violation("fantasy-columns-not-independent", f"{ctx}: column {j}")
        labels.add("fantasies")
    # ---- joint samples
    if ns >= 2 and t.chance(1, 3):
        seed = t.int(0, 2**31 - 2)
        N = 4000
        smp = np.array(state.sample_joint(Xt, num_samples=N, random_state=np.random.RandomState(seed)))
        smp = smp.reshape(ns, m, N)[:, 0, :]
        emp_mean = smp.mean(axis=1)
        C = cov_ref + 1e-5 * np.eye(ns)
        sd = np.sqrt(np.maximum(np.diag(C), 0))
        if np.any(np.abs(emp_mean - means_ref[:, 0]) > 7 * sd / math.sqrt(N) + tol):
            raise Violation("joint-sample-mean", f"{ctx}: sample mean {emp_mean.tolist()} dense {means_ref[:, 0].tolist()}")
        emp = np.cov(smp, bias=True)
        se = np.sqrt((np.outer(np.diag(C), np.diag(C)) + C * C) / N)
        if np.any(np.abs(emp - C) > 7 * se + 10 * tol + 1e-9):
            raise Violation("joint-sample-covariance", f"{ctx}: sample covariance {emp.tolist()} dense {C.tolist()}")
        labels.add("joint-samples")
    # ---- incremental update
    if t.chance(1, 2):
        xn = np.array(gen_points(t, 1, d, base=[x[:d] for x in Xl]), dtype=float)
        if "expdecay" in klabel:
            xn = np.concatenate([xn, [[resource_value(t, klabel)]]], axis=1)
        use_sample = t.bool()
        if use_sample:
            seed = t.int(0, 2**31 - 2)
            mask = None
            if m > 1 and t.bool():
                mask = np.array([t.bool() for _ in range(m)])
            yn, st2 = state.sample_and_update(xn, mean_impute_mask=mask, random_state=np.random.RandomState(seed))
            yn = np.array(yn).reshape(1, m)
            # the drawn target itself
            kx_ = kmat(X, xn)
            mu_r, var_r, _, _, _ = dense_posterior(K, kx_, kdiag(xn), None, mean_tr, np.full(1, mval), Y, np.full(n, c))
            z = np.random.RandomState(seed).normal(size=(1, m))
            if mask is not None:
                z[0, mask] = 0
            want_y = mu_r + z * math.sqrt(max(float(var_r[0]), 1e-12))
            if not np.allclose(yn, want_y, rtol=tol * 10, atol=tol * 10):
                raise Violation("sample-and-update-target", f"{ctx}: drawn {yn.tolist()}, dense {want_y.tolist()}")
            labels.add("sample-and-update")
        else:
            yn = np.array([[t.float(-2.0, 2.0) for _ in range(m)]])
            st2 = state.update(xn, yn)
            labels.add("incremental-update")
        X2 = np.concatenate([X, xn], axis=0)
        Y2 = np.concatenate([Y, yn], axis=0)
        K2 = kmat(X2, X2)
        K2[n, n] = float(kdiag(xn)[0])  # the update takes the new diagonal entry from kernel.diagonal
        Ks2 = kmat(X2, Xt)
        L2 = np.array(st2.chol_fact)
        c2 = float((L2 @ L2.T - K2)[n, n])
        noise_diag = np.array([c] * n + [c2])
        if c2 < sig2 * (1 - 1e-6) - 1e-8 * scale:
            raise Violation("noise-variance-reduced", f"{ctx}: new diagonal entry uses {c2} < sigma^2")
        m2, v2, _, _, cond2 = dense_posterior(K2, Ks2, kss, None, np.full(n + 1, mval), mean_te, Y2, noise_diag)
        # the update evaluates k(X, x_new) on a different code path than k(X2, X2): squared distances differ by ~ eps ib^2 d
        tol2 = (50 + 10 * ib_max**2 * din) * np.finfo(float).eps * cond2 * scale * yscale + 3e-9 * scale * yscale
        if tol2 <= 1e-3:
            pm2, pv2 = st2.predict(Xt)
            if not np.allclose(np.array(pm2), m2, rtol=tol2, atol=tol2):
                raise Violation("incremental-update-mean", f"{ctx}: after appending {xn.tolist()} -> {yn.tolist()}: library {np.array(pm2).tolist()} dense {m2.tolist()}")
            if not np.allclose(np.array(pv2), np.maximum(v2, 1e-12), rtol=tol2, atol=tol2):
                raise Violation("incremental-update-variance", f"{ctx}: library {np.array(pv2).tolist()} dense {np.maximum(v2, 1e-12).tolist()}")
            if abs(c2 - sig2) <= 1e-6 * sig2 + 1e-8 * scale and abs(c - sig2) <= 1e-6 * sig2 + 1e-8 * scale:
                s3 = GaussProcPosteriorState(features=X2, targets=Y2, mean=mean, kernel=kern_arg, noise_variance=noise)
                pm3, pv3 = s3.predict(Xt)
                tol3 = 2 * tol2 + 2e-9 * cond2 * scale * yscale  # k(x, x) from the matrix is cs (1 - 5e-10), from diagonal() it is cs
                if tol3 <= 1e-3 and (not np.allclose(np.array(pm3), np.array(pm2), rtol=tol3, atol=tol3) or not np.allclose(np.array(pv3), np.array(pv2), rtol=tol3, atol=tol3)):
                    raise Violation("incremental-update-differs-from-scratch", f"{ctx}")
    # ---- the same through the model class (what the searchers use)
    if ext is None and t.chance(1, 3):
        from syne_tune.optimizer.schedulers.searchers.bayesopt.gpautograd.gp_regression import GaussianProcessRegression

        full = {"noise_variance": sig2}
        full.update({"kernel_" + k_: v for k_, v in kernel.get_params().items()})
        full.update({"mean_" + k_: v for k_, v in mean.get_params().items()})
        gpr = GaussianProcessRegression(kernel=kernel, mean=mean, initial_noise_variance=1e-3, random_seed=0)
        gpr.set_params(full)
        back = gpr.get_params()
        for k_, v in full.items():
            if abs(float(back[k_]) - float(v)) > 1e-9 * max(1.0, abs(float(v))):
                raise Violation("model-set-get-params", f"{ctx}: set {k_}={v}, get returns {back[k_]}")
        data = {"features": X, "targets": Y}
        gpr.recompute_states(data)
        (gm, gv), = gpr.predict(Xt)
        gm = np.array(gm).reshape(ns, m)
        if not np.allclose(gm, means_ref, rtol=tol, atol=tol) or not np.allclose(np.array(gv), var_want, rtol=tol, atol=tol):
            raise Violation("model-predict", f"{ctx}: GaussianProcessRegression.predict {gm.tolist()} {np.array(gv).tolist()}; dense {means_ref.tolist()} {var_want.tolist()}")
        if m == 1:
            nl2 = float(np.array(gpr.likelihood(data)).reshape(-1)[0])
            if abs(nl2 - nlml_ref) > tol * max(1.0, n) + (50 * np.finfo(float).eps * cond + 1e-9) * abs(nlml_ref):
                raise Violation("model-likelihood", f"{ctx}: likelihood(data) = {nl2}, dense {nlml_ref}")
        labels.add("model-class")
    ard_or_scale = "ard" in klabel or any("covariance_scale" in k and abs(float(v) - 1.0) > 1e-9 for k, v in kparams.items() if v is not None and not isinstance(v, str))
    nt = n >= 2 and ns >= 2 and (ard_or_scale or m >= 2)
    return Result(sorted(labels), nt, {"case": ctx, "X": X.tolist()[:4], "X*": Xt.tolist()[:3]})


SUBCHECKS = {
    "dense": {"fn": case, "quick": 48000, "thorough": 800000, "required": ["kernel-as-pair", "fantasies", "model-class", "incremental-update", "sample-and-update", "joint-samples", "expdecay", "product", "warped-2", "product-expdecay", "warped-product-expdecay"]},
}
