"""C12 — tuning terminates on the stopping criterion and leaves nothing running."""
import os

from harness import driver_scripted as ds
from harness import driver_sim, gen_sched, sim_case
from harness.tape import HarnessError, Result, Violation
from checks.c02 import brief, make_script_fn

PROPERTY = "C12"
LEVEL = "exploration"
RULE = (
    "Real Tuner in the simulator (generated tables, all model-free scheduler families) and over the scripted file back-end, with "
    "StoppingCriterion fields drawn singly and in combination (trials started / completed / finished, evaluations, wall-clock on the "
    "harness or simulated clock, metric thresholds inside the table's range), max_failures, wait_trial_completion_when_stopping, "
    "asynchronous_scheduling, start_jobs_without_delay, exhaustion of finite spaces, failing scripts, NaN metric values (FIFO schedulers) and an injected scheduler "
    "exception. Oracle: every evaluation the loop makes of the criterion is recorded by a proxy and must agree with the monitor's own "
    "recomputation from its independent counts (documented '>' semantics); after the first iteration at which the criterion (or the "
    "failure limit, or exhausted-and-idle) holds the loop performs no further iteration, unless waiting for running trials, in which "
    "case nothing is started any more; started <= budget + n_workers; after run() returns or raises: no scripted process alive, results "
    "file written with all delivered rows, TuningStatus counters == monitor's counts per state. "
    "Non-trivial = the run ended by a criterion while >= 1 trial was running; distinct = distinct choice tape."
)
ASSUMPTIONS = [
    "'left running' is judged on the scripted back-end (the simulator documents that unreported trials only hold queue events)",
    "termination is a bounded statement: scripts are finite; 20000 loop iterations without an end count as no-termination",
]


class Tracker:
    """Independent per-trial status and counters from the recorded history."""

    def __init__(self):
        self.status = {}
        self.ever_failed = set()
        self.n_results = 0
        self.max_tuner_time = None
        self.metric_min = {}
        self.metric_max = {}

    def apply(self, e):
        k = e["kind"]
        if k == "be.start" and e.get("trial_id") is not None:
            self.status[e["trial_id"]] = "InProgress"
        elif k == "be.resume":
            if e.get("ok"):
                self.status[e["trial_id"]] = "InProgress"
        elif k == "fetch":
            for tid, st in e["status"].items():
                self.status[tid] = st
                if st == "Failed":
                    self.ever_failed.add(tid)
            for tid, r in e["results"]:
                self.n_results += 1
                for name, v in r.items():
                    # "stop once an evaluation reports a metric value below / above a threshold": a NaN is neither
                    if isinstance(v, (int, float)) and not isinstance(v, bool) and v == v:
                        self.metric_min[name] = v if name not in self.metric_min else min(self.metric_min[name], v)
                        self.metric_max[name] = v if name not in self.metric_max else max(self.metric_max[name], v)
        elif k == "sched.result":
            cur = self.status.get(e["trial_id"])
            if e["decision"] == "STOP":
                # the loop overrides the status at once, unless the job had already completed;
                # a job that failed in the same poll is held as failed
                if cur not in ("Completed", "Failed"):
                    self.status[e["trial_id"]] = "Stopped"
            elif e["decision"] == "PAUSE":
                if cur != "Failed":
                    self.status[e["trial_id"]] = "Paused"

    def count(self, *sts):
        return sum(1 for s in self.status.values() if s in sts)

    @property
    def started(self):
        return len(self.status)

    @property
    def completed(self):
        return self.count("Completed")

    @property
    def failed(self):
        return self.count("Failed")

    @property
    def finished(self):
        return self.count("Completed", "Stopped", "Stopping", "Failed")

    @property
    def running(self):
        return self.count("InProgress")


def criterion_value(fields, tr, wallclock):
    f = fields
    if f.get("max_wallclock_time") is not None and wallclock is not None and wallclock > f["max_wallclock_time"]:
        return True
    if f.get("max_num_trials_started") is not None and tr.started > f["max_num_trials_started"]:
        return True
    if f.get("max_num_trials_completed") is not None and tr.completed > f["max_num_trials_completed"]:
        return True
    if f.get("max_num_trials_finished") is not None and tr.finished > f["max_num_trials_finished"]:
        return True
    if f.get("max_num_evaluations") is not None and tr.n_results > f["max_num_evaluations"]:
        return True
    for name, thr in (f.get("max_metric_value") or {}).items():
        if name in tr.metric_max and tr.metric_max[name] > thr:
            return True
    for name, thr in (f.get("min_metric_value") or {}).items():
        if name in tr.metric_min and tr.metric_min[name] < thr:
            return True
    return False


def check_termination(run, fields, n_workers, flags, max_failures, labels, sim, clock_start=None):
    tr = Tracker()
    wait = flags.get("wait_trial_completion_when_stopping", False)
    stop_seen = False  # criterion / failure limit held at the end of an iteration
    stop_reason = None
    exhausted = False
    ended = False
    running_at_stop = 0
    last_loop_end = None
    loop_started_exhausted_idle = False
    for e in run.events:
        k = e["kind"]
        tr.apply(e)
        if k == "tuning_end":
            ended = True
            continue
        if ended:
            continue
        if k == "sched.suggest" and e["ret"] is None:
            exhausted = True
            labels.add("exhausted")
        if k == "loop_start":
            loop_started_exhausted_idle = exhausted and tr.running == 0
            if stop_seen and not wait:
                raise Violation(f"iteration-after-stop:{stop_reason}", f"criterion {fields} held at the end of the previous iteration, but the loop went on; counts started={tr.started} completed={tr.completed} finished={tr.finished} evals={tr.n_results}")
            if stop_seen and wait and tr.running == 0:
                raise Violation("iteration-after-stop:wait-but-idle", f"criterion {fields} holds and nothing is running, but the loop went on")
            if exhausted and tr.running == 0 and last_loop_end is not None and last_loop_end.get("idle_exhausted_iterations", 0) >= 1:
                # (the loop notices 'exhausted and idle' at the start of the next iteration: one more loop_start is fine)
                raise Violation("iteration-after-exhaustion", f"search space exhausted and nothing running for a whole iteration, but the loop went on")
        if k in ("be.start", "be.resume") and stop_seen:
            raise Violation(f"trial-started-after-stop:{stop_reason}", f"criterion {fields} held, wait={wait}, but trial {e.get('trial_id')} was started/resumed")
        if k == "loop_end":
            prev = last_loop_end.get("idle_exhausted_iterations", 0) if last_loop_end else 0
            e["idle_exhausted_iterations"] = prev + 1 if (exhausted and tr.running == 0 and loop_started_exhausted_idle) else 0
            last_loop_end = e
        if k == "crit":
            # the loop's own evaluation vs the monitor's
            if sim:
                wc = tr.metric_max.get("st_tuner_time")
                f2 = dict(fields)
                if f2.get("max_wallclock_time") is not None:
                    # SimulatorCallback rewrites the wall-clock part onto simulated time stamps of results
                    wallclock = wc
                else:
                    wallclock = None
            else:
                wallclock = None if e.get("clock") is None or clock_start is None else e["clock"] - clock_start
            mine = criterion_value(fields, tr, wallclock)
            if bool(e["value"]) != mine:
                raise Violation(
                    "criterion-disagrees-with-counts",
                    f"criterion {fields}: loop evaluated {e['value']}, monitor's counts give {mine}: started={tr.started} completed={tr.completed} "
                    f"finished={tr.finished} failed={tr.failed} evals={tr.n_results} wallclock={wallclock} max_st_tuner_time={tr.metric_max.get('st_tuner_time')}",
                )
            too_many_failures = tr.failed > max_failures
            if (mine or too_many_failures) and not stop_seen:
                stop_seen = True
                stop_reason = "failures" if too_many_failures and not mine else "criterion"
                running_at_stop = tr.running
    if not ended:
        raise Violation("no-tuning-end", "on_tuning_end never called")
    # budget overshoot
    if fields.get("max_num_trials_started") is not None:
        n_start = sum(1 for e in run.events if e["kind"] == "be.start" and e.get("trial_id") is not None)
        if n_start > fields["max_num_trials_started"] + n_workers:
            raise Violation("budget-overshoot", f"{n_start} trials started, budget {fields['max_num_trials_started']}, n_workers {n_workers}")
    return tr, stop_seen, stop_reason, running_at_stop


def check_after_run(run, tr, labels, scripted):
    tuner = run.tuner
    st = tuner.tuning_status
    # statuses at the end: everything still running was stopped by stop_all
    final = {tid: ("Stopped" if s == "InProgress" else s) for tid, s in tr.status.items()}
    mine = {
        "started": len(final),
        "completed": sum(1 for s in final.values() if s == "Completed"),
        "failed": sum(1 for s in final.values() if s == "Failed"),
        "finished": sum(1 for s in final.values() if s in ("Completed", "Stopped", "Stopping", "Failed")),
        "running": 0,
    }
    theirs = {
        "started": st.num_trials_started,
        "completed": st.num_trials_completed,
        "failed": st.num_trials_failed,
        "finished": st.num_trials_finished,
        "running": st.num_trials_running,
    }
    if mine != theirs:
        raise Violation("status-counters", f"TuningStatus {theirs} vs trials per state from the history {mine}; states={final}")
    if scripted:
        alive = [(tid, p.run_index) for tid, ps in run.backend.procs.items() for p in ps if p.alive]
        if alive:
            raise Violation("trial-left-running", f"processes still alive after run(): {alive}")
    store = run.store if scripted else run.sim_callback
    path = os.path.join(str(tuner.tuner_path), "results.csv.zip")
    if not os.path.exists(path):
        raise Violation("results-not-stored", f"{path} missing after run()")
    import pandas as pd

    n_rows = len(store.results)
    if n_rows:
        df = pd.read_csv(path)
        if len(df) != n_rows:
            raise Violation("results-file-incomplete", f"file has {len(df)} rows, {n_rows} results were delivered")
    n_delivered = sum(1 for e in run.events if e["kind"] == "sched.result")
    if n_rows != n_delivered:
        raise Violation("results-log-row-count", f"{n_rows} rows, {n_delivered} results delivered to the scheduler")


def add_metric_thresholds(t, fields, lo=0.0, hi=1.0):
    # thresholds may also name metrics which no trial reports (misspelt, reported late): they must not matter
    def with_unreported(d):
        if t.chance(1, 3):
            d = dict([("never_reported", t.float(lo, hi))] + list(d.items())) if t.bool() else dict(list(d.items()) + [("never_reported", t.float(lo, hi))])
        return d

    if t.chance(1, 5):
        fields["max_metric_value"] = with_unreported({"loss": t.float(lo, hi)})
    elif t.chance(1, 5):
        fields["min_metric_value"] = with_unreported({"loss": t.float(lo, hi)})
    elif t.chance(1, 8):
        fields["max_metric_value" if t.bool() else "min_metric_value"] = {"never_reported": t.float(lo, hi)}


def case_sim(t):
    from syne_tune import StoppingCriterion

    ctx = sim_case.gen_case(t, criterion="any")
    add_metric_thresholds(t, ctx.crit_fields)
    ctx.crit = StoppingCriterion(**ctx.crit_fields)
    run = sim_case.run_case(t, ctx)
    labels = {ctx.spec.family} | {f"crit:{k}" for k in ctx.crit_fields}
    for k, v in ctx.flags.items():
        labels.add(f"{k}={v}")
    if run.loop_guard:
        raise Violation("no-termination", f"{sim_case.describe(ctx)}: 20000 loop iterations")
    if run.exception is not None:
        e = run.exception
        raise Violation(f"run-raises:{type(e).__name__}:{ctx.spec.family}", f"{sim_case.describe(ctx)}: {type(e).__name__}: {e}")
    tr, stop_seen, reason, running_at_stop = check_termination(run, ctx.crit_fields, ctx.n_workers, ctx.flags, 1, labels, sim=True)
    check_after_run(run, tr, labels, scripted=False)
    if stop_seen:
        labels.add(f"ended-by-{reason}")
    return Result(sorted(labels), stop_seen and running_at_stop >= 1, {"case": sim_case.describe(ctx), "events": sim_case.brief_events(run, 30)})


def case_scripted(t):
    from syne_tune import StoppingCriterion
    from syne_tune.config_space import choice, uniform

    n_workers = t.int(1, 4)
    max_t = t.int(2, 6)
    finite = t.chance(1, 4)
    if finite:
        cs = {"x": choice(["a", "b", "c"][: t.int(1, 3)]), "y": choice([0, 1][: t.int(1, 2)])}
        fams = ["fifo-grid", "fifo-random"]
    else:
        cs = {"x": uniform(0.0, 1.0), "y": uniform(0.0, 1.0)}
        fams = ["fifo-random", "hb-stopping", "hb-promotion", "median", "sync-hb", "pbt"]
    use_mra = t.bool()
    spec = gen_sched.gen_sched(t, cs, max_t=max_t, max_resource_attr="epochs" if use_mra else None, families=fams, n_workers=n_workers)
    sched = spec.build()
    labels = {spec.family}

    def max_t_fn(tid, config):
        return int(config["epochs"]) if use_mra and "epochs" in config else max_t

    fail = t.chance(1, 3)
    if spec.family in ("sync-hb", "dehb"):
        fail = False  # synchronous brackets resume failed trials / DEHB cannot digest failures: known findings of C13 / C05
    # diverged runs report NaN (only with schedulers that do not rank the metric)
    nan_rate = 4 if spec.family in ("fifo-random", "fifo-grid") and t.chance(1, 3) else 0
    if nan_rate:
        labels.add("nan-metric-values")
    script_fn = make_script_fn(t, max_t_fn, t.bool(), fail_rate=4 if fail else 0, nan_rate=nan_rate)
    crit, fields = driver_sim.gen_stop_criterion(t)
    add_metric_thresholds(t, fields)
    crit = StoppingCriterion(**fields)
    flags = {}
    if t.chance(1, 3):
        flags["wait_trial_completion_when_stopping"] = True
    if t.chance(1, 4):
        flags["asynchronous_scheduling"] = False
    if t.chance(1, 4):
        flags["start_jobs_without_delay"] = False
    max_failures = t.weighted([(2, 1), (1, 0), (1, 3), (1, 100)])
    inject_at = None
    calls = [0]
    if t.chance(1, 5):
        inject_at = t.int(1, 12)
        orig = sched.on_trial_result

        def raising(trial, result):
            calls[0] += 1
            if calls[0] == inject_at:
                raise RuntimeError("injected scheduler failure")
            return orig(trial, result)

        sched.on_trial_result = raising
    clock = driver_sim.install_clock()
    clock_start = [None]

    from syne_tune.tuner_callback import TunerCallback

    class Probe(TunerCallback):
        def on_tuning_start(self, tuner):
            self.tuner = tuner
            # TuningStatus has been created just before: its start_time is the clock reading now
            clock_start[0] = tuner.tuning_status.start_time

    run = ds.run_scripted(t, sched, script_fn, n_workers, crit, allow_late_lines=True, max_failures=max_failures, tuner_flags=flags, extra_callbacks=[Probe()], outside_time=True)
    # attach clock readings to the criterion evaluations (the monitor's loop_start draws advance the clock)
    labels |= {f"crit:{k}" for k in fields}
    for k, v in flags.items():
        labels.add(f"{k}={v}")
    if run.loop_guard:
        raise Violation("no-termination", f"{spec.describe()} criterion {fields}: loop guard")
    exc = run.exception
    n_failed_scripts = sum(1 for e in run.rec.of("fetch") for s in e["status"].values() if s == "Failed")
    injected_fired = inject_at is not None and calls[0] >= inject_at
    if exc is not None:
        is_injected = injected_fired  # (the failure-limit error raised in the finally block may mask it)
        is_limit = isinstance(exc, ValueError) and "failed" in str(exc)
        if is_injected:
            labels.add("exit-by-injected-exception")
        elif is_limit:
            labels.add("exit-by-failure-limit")
        else:
            import traceback

            tb = "".join(traceback.format_exception(type(exc), exc, exc.__traceback__))[-700:]
            raise Violation(f"run-raises:{type(exc).__name__}", f"{spec.describe()} criterion {fields}: {tb}")
    if exc is None or ("exit-by-failure-limit" in labels and not injected_fired):
        tr, stop_seen, reason, running_at_stop = check_termination(run, fields, n_workers, flags, max_failures, labels, sim=False, clock_start=clock_start[0])
        if exc is not None and reason != "failures" and not (tr.failed > max_failures):
            raise Violation("failure-limit-error-without-failures", f"{exc}: failed={tr.failed} max_failures={max_failures}")
        if exc is None and tr.failed > max_failures:
            raise Violation("failure-limit-exceeded-silently", f"failed={tr.failed} max_failures={max_failures}, run() returned normally")
        if exc is not None:
            failed_ids = sorted(tr.ever_failed)
            import re

            m = re.search(r"(\d+)", str(exc))
            if not m or int(m.group(1)) not in failed_ids:
                raise Violation("failure-limit-error-names-wrong-trial", f"{exc!r}; failed trials {failed_ids}")
    else:
        # exit by exception: the poll of the interrupted iteration was never processed by the
        # loop, so the states the loop knows are those up to the last completed iteration
        tr = Tracker()
        last_end = max([e["i"] for e in run.events if e["kind"] == "loop_end"], default=-1)
        for e in run.events:
            if e["i"] > last_end and e["kind"] in ("fetch", "sched.result"):
                continue
            tr.apply(e)
        stop_seen, running_at_stop, reason = True, tr.running, "exception"
    check_after_run(run, tr, labels, scripted=True)
    if stop_seen:
        labels.add(f"ended-by-{reason}")
    return Result(sorted(labels), stop_seen and running_at_stop >= 1, {"scheduler": spec.describe(), "criterion": fields, "flags": flags, "events": brief(run, 30)})


SUBCHECKS = {
    "sim": {"fn": case_sim, "quick": 10000, "thorough": 200000, "required": ["ended-by-criterion", "exhausted", "crit:max_wallclock_time", "crit:max_num_evaluations", "wait_trial_completion_when_stopping=True"]},
    "scripted": {"fn": case_scripted, "quick": 8000, "thorough": 150000, "required": ["nan-metric-values", "ended-by-criterion", "exit-by-injected-exception", "exit-by-failure-limit", "exhausted", "wait_trial_completion_when_stopping=True"]},
}
