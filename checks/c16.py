"""C16 — a saved and restored scheduler or searcher continues exactly like the original."""
import copy
import pickle

from harness import driver_protocol as dp
from harness import gen_sched
from harness.tape import HarnessError, Result, Tape, Violation

PROPERTY = "C16"
LEVEL = "exploration"
RULE = (
    "Histories H = H1.H2 driven by the protocol driver with the cut at a tape-chosen position (including before the first suggestion, "
    "with trials pending, running or paused). Restore kinds: (a) dill.loads(dill.dumps(scheduler)) — what Tuner.save / Tuner.load do — "
    "for FIFO random / grid / GP, all Hyperband variants (random and GP searchers), synchronous Hyperband, DEHB, PBT, regularised "
    "evolution, median rule; (b) searcher.clone_from_state(pickle round-trip of searcher.get_state()) for random, grid, GP FIFO and GP "
    "multi-fidelity searchers, the clone re-attached to the scheduler; the uninterrupted twin of (b) is a dill copy taken at the same "
    "point (validated by (a)). Original and restored object are then driven in lockstep with the same H2. Oracle: identical traces "
    "(suggestions incl. configurations, decisions); in particular no configuration suggested twice or skipped. "
    "Non-trivial = cut with >= 1 pending or paused trial and |H2| >= 3 suggestions; distinct = distinct choice tape."
)
ASSUMPTIONS = [
    "both twins live in one process; GP searchers keep their estimator object across clone_from_state (as the method documents), so bit-equality is expected",
]

GP_OPTS = {"num_init_random": 2, "opt_nstarts": 1, "opt_maxiter": 3, "num_init_candidates": 6, "debug_log": False, "opt_skip_init_length": 50}
FAMILIES = ["fifo-random", "fifo-grid", "hb-stopping", "hb-promotion", "hb-pasha", "hb-cost", "sync-hb", "dehb", "pbt", "median", "rea"]
GP_FAMILIES = ["fifo-bo", "hb-bo-stopping", "hb-bo-promotion"]


def _ev_key(e):
    cfg = e.get("config")
    if cfg is not None:
        cfg = sorted((k, repr(v)) for k, v in cfg.items() if k != "elapsed_time")
    return [e.op, e.get("kind"), e.get("trial_id"), e.get("level"), e.get("decision"), cfg]


def _close(a, b, rel=1e-9):
    """Same event up to round-off in the float entries of the configuration."""
    if [a.op, a.get("kind"), a.get("trial_id"), a.get("level"), a.get("decision")] != [b.op, b.get("kind"), b.get("trial_id"), b.get("level"), b.get("decision")]:
        return False
    ca, cb = a.get("config"), b.get("config")
    if ca is None or cb is None or set(ca) != set(cb):
        return ca is None and cb is None
    for k in ca:
        if k == "elapsed_time":
            continue
        va, vb = ca[k], cb[k]
        if isinstance(va, float) and isinstance(vb, float):
            if abs(va - vb) > rel * max(abs(va), abs(vb)):
                return False
        elif va != vb or type(va) is not type(vb):
            return False
    return True


def _reset_block_names():
    """Block-name counters of the GP code are process-global: start them afresh, as in a new process."""
    from syne_tune.optimizer.schedulers.searchers.bayesopt.gpautograd import gluon

    gluon.NameManager._current.value = gluon.NameManager()


def build(t, fam, max_t, n_workers):
    from syne_tune.config_space import choice, finrange, logfinrange, loguniform, qrandint, quniform, randint, uniform

    use_mra = fam in ("hb-promotion", "hb-pasha", "hb-cost", "sync-hb", "dehb", "hb-bo-promotion") and t.bool()
    if fam == "fifo-grid":
        cs = {"x": choice(["a", "b", "c"]), "y": randint(0, 3)}
    else:
        cs = {"x": uniform(0.0, 1.0), "y": randint(0, 4), "z": choice(["u", "v"]), "w": finrange(0.0, 1.0, 6), "v": logfinrange(0.001, 1.0, 4), "u": loguniform(0.001, 1.0), "q": quniform(0.0, 1.0, 0.25), "p": qrandint(0, 8, 2)}
    pts = t.weighted([(2, None), (1, []), (2, "some")])
    if pts == "some":
        pts = [{"y": t.int(0, 3)} for _ in range(t.int(1, 3))]
    if fam in GP_FAMILIES:
        # odd and even numbers of normal variates drawn per suggestion (Thompson scores, fantasies)
        opts = dict(GP_OPTS, num_init_candidates=t.choice([6, 5, 7]), num_fantasy_samples=t.choice([2, 1, 3]))
        if t.bool():
            # fitting is skipped in some rounds: the skip predicate has a counter, which is part of the snapshot
            opts.update(opt_skip_init_length=2, opt_skip_period=t.choice([2, 3]))
        base = dict(metric="loss", mode=t.choice(["min", "max"]), random_seed=t.int(0, 10**6), searcher="bayesopt", search_options=opts, points_to_evaluate=pts)
        if fam == "fifo-bo":
            return gen_sched.SchedSpec(fam, "FIFOScheduler", base, dict(cs)), False
        typ = "stopping" if fam.endswith("stopping") else "promotion"
        kw = dict(base, type=typ, resource_attr="epoch", grace_period=1, reduction_factor=t.choice([2, 3]), searcher_data=t.choice(["rungs", "all"]))
        if use_mra:
            cs = dict(cs, epochs=max_t)
            kw["max_resource_attr"] = "epochs"
        else:
            kw["max_t"] = max_t
        spec = gen_sched.SchedSpec(fam, "HyperbandScheduler", kw, dict(cs))
        spec.pause_resume = typ == "promotion"
        return spec, use_mra
    # random search which may repeat configurations keeps a black-list of failed ones only: small finite space, so that a
    # black-listed configuration is drawn again
    dup = fam in ("fifo-random", "hb-stopping", "hb-promotion") and t.chance(1, 4)
    if dup:
        cs = {"x": choice(["a", "b"]), "y": randint(0, 3)}
        if use_mra:
            cs["epochs"] = max_t
    spec = gen_sched.gen_sched(t, cs, max_t=max_t, max_resource_attr="epochs" if use_mra else None, families=[fam], cost_attr="cost", n_workers=n_workers)
    if spec.family.startswith(("fifo", "hb-")):
        spec.kwargs["points_to_evaluate"] = pts
    if dup and spec.kwargs.get("searcher", "random") == "random":
        spec.kwargs["search_options"] = dict(spec.kwargs.get("search_options") or {}, allow_duplicates=True)
        spec.allow_duplicates = True
    return spec, use_mra


def clone_driver(dA, schedB, result_B):
    dB = dp.ProtocolDriver(schedB, None, result_B, dA.level_cap_fn, resource_attr=dA.resource_attr, n_workers=dA.n_workers, max_trials=dA.max_trials,
                           max_steps=dA.max_steps, checkpointing=dA.checkpointing, allow_fail=dA.allow_fail, fail_weight=dA.fail_weight, sparse_reports=dA.sparse_reports)
    dB.trials = dict(dA.trials)
    dB.running = {k: dict(v) for k, v in dA.running.items()}
    dB.paused = dict(dA.paused)
    dB.stopped = set(dA.stopped)
    dB.completed = set(dA.completed)
    dB.failed = set(dA.failed)
    dB.next_id = dA.next_id
    dB.exhausted = dA.exhausted
    dB.steps = dA.steps
    dB.trace = list(dA.trace)
    dB.last_result = dict(dA.last_result)
    inner = getattr(schedB, "scheduler", schedB)
    dB.time_keeper = getattr(inner, "time_keeper", None)
    return dB


def run(t, fam, kind):
    import dill

    max_t = t.int(2, 6)
    n_workers = t.int(1, 4)
    spec, use_mra = build(t, fam, max_t, n_workers)
    fam = spec.family
    if kind == "clone-fresh":
        _reset_block_names()
    A = spec.build()
    tk = dp.make_time_keeper()
    inner = getattr(A, "scheduler", A)
    if hasattr(inner, "set_time_keeper"):
        inner.set_time_keeper(tk)
    curve = {}

    def result_A(tid, config, level):
        return dict(curve.setdefault((tid, level), {"loss": t.float(0.0, 1.0), "cost": float(t.int(1, 4))}))

    def result_B(tid, config, level):
        return dict(curve[(tid, level)])

    def cap(config):
        return int(config["epochs"]) if use_mra and "epochs" in config else max_t

    gp = fam in GP_FAMILIES
    total = 22 if gp else t.weighted([(3, 40), (2, 70)])
    dA = dp.ProtocolDriver(A, t, result_A, level_cap_fn=cap, n_workers=n_workers, max_trials=t.int(3, 9), max_steps=total, checkpointing=not t.chance(1, 3),
                           allow_fail=(t.chance(1, 4) or getattr(spec, "allow_duplicates", False)) and fam not in ("dehb", "sync-hb"), time_keeper=tk if hasattr(inner, "time_keeper") else None)
    cut = t.weighted([(2, 0), (6, None)])
    if cut is None:
        cut = t.int(0, total - 4)
    labels = {fam, kind}
    if getattr(spec, "allow_duplicates", False):
        labels.add("allow-duplicates")
    for _ in range(cut):
        try:
            ev = dA.step()
        except Violation as v:
            if v.kind == "resume-of-non-paused-trial":
                return Result(sorted(labels) + ["ended-before-cut"], False, None)
            raise
        if ev is None:
            return Result(sorted(labels) + ["ended-before-cut"], False, None)
    if cut == 0:
        labels.add("cut-at-0")
    if dA.paused:
        labels.add("cut-with-paused-trial")
    pending_or_paused = bool(dA.paused) or bool(dA.running)
    # ---- restore
    try:
        if kind == "dill":
            B = dill.loads(dill.dumps(A))
            restored, original = B, A
        elif kind == "clone-fresh":
            # what happens after a restart: the snapshot is restored into a newly constructed searcher (block-name counters
            # as in a fresh process); the scheduler around it is a dill copy; the uninterrupted twin is the original
            B = dill.loads(dill.dumps(A))
            state = pickle.loads(pickle.dumps(getattr(A, "scheduler", A).searcher.get_state()))
            _reset_block_names()
            F = spec.build()
            S2 = getattr(F, "scheduler", F).searcher.clone_from_state(state)
            innerB = getattr(B, "scheduler", B)
            innerB._searcher = S2
            if hasattr(S2, "configure_scheduler"):
                S2.configure_scheduler(innerB)
            restored, original = B, A
        else:
            # the uninterrupted twin is a dill copy; the original gets its searcher replaced by the clone
            B = dill.loads(dill.dumps(A))
            innerA = getattr(A, "scheduler", A)
            S = innerA.searcher
            state = pickle.loads(pickle.dumps(S.get_state()))
            S2 = S.clone_from_state(state)
            innerA._searcher = S2
            if hasattr(S2, "configure_scheduler"):
                S2.configure_scheduler(innerA)
            restored, original = A, B
    except Violation:
        raise
    except Exception as e:
        import traceback

        tb = traceback.extract_tb(e.__traceback__)
        site = next((f"{fr.filename.split('/')[-1]}:{fr.name}" for fr in reversed(tb) if "/syne_tune/" in fr.filename), "?")
        raise Violation(f"restore-raises:{kind}:{fam}:{type(e).__name__}:{site}", f"{spec.describe()} cut={cut}: {type(e).__name__}: {e}")
    # A keeps driver dA; B gets a cloned driver
    dB = clone_driver(dA, B, result_B)
    n_sugg = 0
    step = 0
    while True:
        step += 1
        pos = len(t.log)
        try:
            evA = dA.step()
        except Violation as v:
            if v.kind == "resume-of-non-paused-trial":
                break
            raise
        except Exception as e:
            if kind == "clone":
                raise Violation(f"restored-raises:{kind}:{fam}:{type(e).__name__}", f"{spec.describe()} cut={cut}: {type(e).__name__}: {e}")
            raise
        if evA is None:
            break
        dB.t = Tape(log=t.log[pos:])
        try:
            evB = dB.step()
        except Violation as v:
            raise Violation(f"restored-twin-diverges:{kind}:{fam}", f"{spec.describe()} cut={cut}: {v.kind}: {str(v.detail)[:300]}")
        except Exception as e:
            raise Violation(f"restored-raises:{kind}:{fam}:{type(e).__name__}", f"{spec.describe()} cut={cut} step {step}: {type(e).__name__}: {e}")
        if evB is not None and _ev_key(evA) != _ev_key(evB) and gp and _close(evA, evB):
            # a snapshot stores the model parameters through their encoding (exp / log): when fitting is skipped after the
            # restore, suggestions agree to round-off only; the twins may drift apart from here, so the comparison ends
            labels.add("gp-equal-up-to-roundoff")
            break
        if evB is None or _ev_key(evA) != _ev_key(evB):
            who = ("restored", "original") if restored is A else ("original", "restored")
            raise Violation(
                f"restored-differs:{kind}:{fam}",
                f"{spec.describe()} cut={cut} (running={sorted(dA.running)} paused={sorted(dA.paused)}), step {step} after the cut: {who[0]} -> {_ev_key(evA)} ; {who[1]} -> {None if evB is None else _ev_key(evB)}",
            )
        if evA.op == "suggest":
            n_sugg += 1
    nt = pending_or_paused and n_sugg >= 3
    return Result(sorted(labels), nt, {"scheduler": spec.describe(), "kind": kind, "cut": cut, "events": [_ev_key(e)[:5] for e in dA.trace[:40]]})


def case_dill(t):
    return run(t, t.choice(FAMILIES), "dill")


def case_clone(t):
    return run(t, t.choice(["fifo-random", "fifo-grid", "hb-stopping", "hb-promotion"]), "clone")


def case_gp(t):
    fam = t.choice(GP_FAMILIES)
    return run(t, fam, t.choice(["dill", "clone", "clone-fresh"]))


SUBCHECKS = {
    "dill": {"fn": case_dill, "quick": 8000, "thorough": 160000, "required": FAMILIES + ["cut-at-0", "cut-with-paused-trial"]},
    "clone": {"fn": case_clone, "quick": 6000, "thorough": 120000, "required": ["fifo-grid", "fifo-random", "cut-at-0", "allow-duplicates"]},
    "gp": {"fn": case_gp, "quick": 960, "thorough": 15000, "min_per_shard": 10, "required": ["clone", "dill", "clone-fresh"]},
}
