"""C02 — every reported result is delivered exactly once, in order, never after stop."""
from harness import driver_scripted as ds
from harness import gen_sched, sim_case
from harness.tape import HarnessError, Result, Violation

PROPERTY = "C02"
LEVEL = "exploration"
RULE = (
    "(generic file/poll back-end) real Tuner + real TrialBackend/LocalBackend poll, status and slicing logic over harness-written "
    "std.out files: per poll every live script flushes 0..4 further tagged reports (order across trials is a tape choice), the exit "
    "becomes visible in the same or a later poll (in a third of the runs a script may also write lines or exit at the very moment its "
    "status is read), further lines may be written between the last poll and the kill, resumed scripts "
    "continue after the checkpoint or restart from level 1, scripts may fail; decisions come from a tape-driven scheduler (any "
    "sequence of CONTINUE / STOP / PAUSE and resume suggestions) or from real schedulers (stopping / promotion Hyperband, median "
    "rule, synchronous Hyperband, PBT). (simulator) real Tuner + UserBlackboxBackend with table elapsed times below and above the "
    "simulator delays. Oracle: every report is tagged (trial, run, seq) (simulator: level + expected time stamp); delivered(run) is a "
    "gap-free, duplicate-free, ordered prefix of emitted(run), equal to it when the loop saw the run complete without a STOP/PAUSE "
    "decision; nothing with a higher seq after a STOP/PAUSE decision, also not after a resume; first delivery after a resume is "
    "(run+1, 0); rows of the results log == delivered, same order. Non-trivial = a poll returned >= 2 results for one trial and a "
    "STOP/PAUSE decision fell strictly inside that batch, or a resume happened after late lines; distinct = distinct choice tape."
)
ASSUMPTIONS = [
    "the scripted back-end replaces LocalBackend._schedule only (fake process objects); files, parsing, status and slicing are the real code",
    "a resumed script continues at paused_level + 1 (checkpointing) or restarts at level 1; reports carry harness tags run/seq",
]


def check_delivery(run, labels):
    """Common oracle over a scripted run's history."""
    emitted = {}  # (trial, run) -> list of seq
    for e in run.rec.of("script.report"):
        emitted.setdefault((e["trial_id"], e["run"]), []).append(e["seq"])
    delivered = {}  # (trial, run) -> list of seq, in delivery order
    order = []
    cur_run = {}
    decided = {}  # (trial, run) -> seq at which STOP/PAUSE was decided
    completed_seen = set()
    last_fetch_counts = {}
    nontrivial = False
    resumed_after_late = False
    late_runs = {(e["trial_id"], e["run"]) for e in run.rec.of("script.killed") if e["late_lines"] > 0}
    tuning_ended = False
    for e in run.events:
        k = e["kind"]
        if k == "tuning_end":
            tuning_ended = True
        elif k == "script.start":
            cur_run[e["trial_id"]] = e["run"]
            if e["run"] > 0 and (e["trial_id"], e["run"] - 1) in late_runs:
                resumed_after_late = True
                labels.add("resume-after-late-lines")
        elif k == "fetch":
            last_fetch_counts = {}
            for tid, r in e["results"]:
                last_fetch_counts[tid] = last_fetch_counts.get(tid, 0) + 1
            for tid, st in e["status"].items():
                if st == "Completed" and not tuning_ended:
                    completed_seen.add((tid, cur_run.get(tid)))
                    if last_fetch_counts.get(tid, 0) == 0:
                        labels.add("completion-seen-after-last-result")
                    else:
                        labels.add("completion-seen-with-last-results")
        elif k == "sched.result":
            tid = e["trial_id"]
            r = e["result"]
            key = (tid, r.get("run"))
            seq = r.get("seq")
            ctx = f"trial {tid}: delivered (run {r.get('run')}, seq {seq})"
            if key[1] is None or seq is None:
                raise Violation("delivered-result-without-tags", f"{ctx}: {r}")
            if key not in emitted or seq not in emitted[key]:
                raise Violation("delivered-result-never-reported", ctx)
            if key[1] != cur_run.get(tid):
                raise Violation(
                    "result-of-previous-run-delivered-after-resume",
                    f"{ctx} while run {cur_run.get(tid)} is current; decided={decided.get(key)} late={key in late_runs}",
                )
            got = delivered.setdefault(key, [])
            if seq in got:
                raise Violation("result-delivered-twice", ctx)
            want = len(got)
            if seq != want:
                raise Violation("delivery-gap-or-reorder", f"{ctx}, expected seq {want}; delivered so far {got}")
            if key in decided:
                raise Violation("delivered-after-stop-or-pause-decision", f"{ctx}, but STOP/PAUSE was decided at seq {decided[key]}")
            got.append(seq)
            order.append((tid, key[1], seq))
            if e["decision"] in ("STOP", "PAUSE"):
                decided[key] = seq
                labels.add("decision-" + e["decision"].lower())
                n_batch = last_fetch_counts.get(tid, 0)
                # position inside the batch: how many of this trial's results of the last poll were delivered so far
                if n_batch >= 2 and sum(1 for x in emitted[key] if x > seq) > 0:
                    labels.add("mid-batch-decision")
                    nontrivial = True
    # complete runs are delivered completely
    for key in completed_seen:
        if key in decided or key[1] is None:
            continue
        em = emitted.get(key, [])
        got = delivered.get(key, [])
        exited_ok = any(e["trial_id"] == key[0] and e["run"] == key[1] and e["code"] == 0 for e in run.rec.of("script.exit"))
        if exited_ok and got != em:
            raise Violation("completed-run-not-fully-delivered", f"trial {key[0]} run {key[1]}: reported {em}, delivered {got}")
    # results log == delivered
    rows = [(r.get("trial_id"), r.get("run"), r.get("seq")) for r in run.store.results]
    if rows != order:
        raise Violation("results-log-differs-from-delivery", f"log rows {rows[:30]} vs delivered {order[:30]}")
    if resumed_after_late:
        nontrivial = True
    if any(len(v) > 1 for v in [[1 for e in run.rec.of('script.start') if e['trial_id'] == tid] for tid in cur_run]):
        labels.add("resume")
    return nontrivial


def make_script_fn(t, max_t_fn, continue_from_checkpoint, fail_rate=0, nan_rate=0):
    curve = {}

    def script_fn(trial_id, run_index, config, paused_level):
        end = max_t_fn(trial_id, config)
        start = 1
        if run_index > 0 and continue_from_checkpoint and paused_level is not None:
            start = paused_level + 1
        lines = []
        for lv in range(start, end + 1):
            key = (trial_id, lv)
            if key not in curve:
                if nan_rate and t.chance(1, nan_rate):
                    curve[key] = float("nan")  # a diverged training run reports NaN
                else:
                    curve[key] = t.float(0.0, 1.0)
            lines.append({"epoch": lv, "loss": curve[key]})
        code = 0
        if fail_rate and t.chance(1, fail_rate):
            cut = t.int(0, len(lines))
            lines = lines[:cut]
            code = 1
        return lines, code

    return script_fn


def case_decisions(t):
    from syne_tune import StoppingCriterion

    n_workers = t.int(1, 3)
    max_trials = t.int(1, 6)
    sched = ds.make_decision_scheduler(t, max_trials=max_trials, allow_pause=True)
    lens = {}

    def max_t_fn(tid, config):
        if tid not in lens:
            lens[tid] = t.int(1, 7)
        return lens[tid]

    cont = t.bool()
    script_fn = make_script_fn(t, max_t_fn, cont, fail_rate=8 if t.bool() else 0)
    crit = StoppingCriterion(max_num_trials_started=max_trials + 2, max_num_evaluations=60)
    race = t.chance(1, 3)
    run = ds.run_scripted(t, sched, script_fn, n_workers, crit, allow_late_lines=True, max_failures=100, poll_race=race)
    labels = {"decisions", "continue-from-checkpoint" if cont else "restart-from-scratch"}
    if any(e.get("during_status_read") for e in run.rec.of("script.exit")):
        labels.add("exit-during-status-read")
    if run.exception is not None and not run.loop_guard:
        e = run.exception
        raise Violation(f"run-raises:{type(e).__name__}", f"{type(e).__name__}: {e}")
    nt = check_delivery(run, labels)
    if run.loop_guard:
        labels.add("loop-guard")
    return Result(sorted(labels), nt, {"n_workers": n_workers, "events": brief(run)})


def brief(run, n=50):
    out = []
    for e in run.events:
        k = e["kind"]
        if k == "script.report":
            out.append(["report", e["trial_id"], e["run"], e["seq"], "late" if e["late"] else ""])
        elif k == "sched.result":
            out.append(["deliver", e["trial_id"], e["result"].get("run"), e["result"].get("seq"), e["decision"]])
        elif k in ("be.resume", "be.start", "script.killed"):
            out.append([k, e.get("trial_id"), e.get("late_lines")])
        elif k == "fetch":
            out.append(["poll", {a: b for a, b in e["status"].items()}, len(e["results"])])
        if len(out) >= n:
            break
    return out


def case_schedulers(t):
    from syne_tune import StoppingCriterion
    from syne_tune.config_space import uniform

    max_t = t.int(2, 8)
    use_mra = t.bool()
    n_workers = t.int(1, 4)
    spec = gen_sched.gen_sched(
        t,
        {"x": uniform(0.0, 1.0), "y": uniform(0.0, 1.0)},
        max_t=max_t,
        max_resource_attr="epochs" if use_mra else None,
        families=["hb-stopping", "hb-promotion", "median", "sync-hb", "pbt", "hb-pasha"],
        n_workers=n_workers,
    )
    sched = spec.build()

    def max_t_fn(tid, config):
        return int(config["epochs"]) if use_mra and "epochs" in config else max_t

    cont = t.bool()
    script_fn = make_script_fn(t, max_t_fn, cont)
    crit = StoppingCriterion(max_num_trials_started=t.int(2, 8), max_num_evaluations=80)
    race = t.chance(1, 3)
    run = ds.run_scripted(t, sched, script_fn, n_workers, crit, allow_late_lines=True, max_failures=100, poll_race=race)
    labels = {spec.family, "continue-from-checkpoint" if cont else "restart-from-scratch"}
    if any(e.get("during_status_read") for e in run.rec.of("script.exit")):
        labels.add("exit-during-status-read")
    if run.exception is not None and not run.loop_guard:
        e = run.exception
        import traceback

        tb = "".join(traceback.format_exception(type(e), e, e.__traceback__))[-900:]
        raise Violation(f"run-raises:{type(e).__name__}:{spec.family}", f"{spec.describe()} mra={use_mra} cont={cont}: {tb}")
    nt = check_delivery(run, labels)
    return Result(sorted(labels), nt, {"scheduler": spec.describe(), "n_workers": n_workers, "events": brief(run)})


# -- simulator ---------------------------------------------------------------------
def case_sim(t):
    ctx = sim_case.gen_case(t, criterion="any", extra_metric=True, cost=True)
    run = sim_case.run_case(t, ctx)
    if run.exception is not None and not run.loop_guard:
        e = run.exception
        raise Violation(f"run-raises:{type(e).__name__}:{ctx.spec.family}", f"{sim_case.describe(ctx)}: {type(e).__name__}: {e}")
    runs = sim_case.analyse(ctx)
    tb = ctx.table
    labels = {ctx.spec.family, "sim"}
    cur = {}
    nontrivial = False
    decided = {}
    delivered = {}
    order = []
    completed_seen = set()
    tuning_ended = False
    for e in run.events:
        k = e["kind"]
        if k == "tuning_end":
            tuning_ended = True
        if k in ("be.start", "be.resume"):
            tid = e["trial_id"]
            lst = runs.get(tid, [])
            idx = sum(1 for x in lst if x.event["i"] <= e["i"]) - 1
            cur[tid] = lst[idx]
            if k == "be.resume":
                labels.add("resume")
        elif k == "fetch":
            for tid, st in e["status"].items():
                if st == "Completed" and not tuning_ended and tid in cur:
                    completed_seen.add((tid, cur[tid].index))
        elif k == "sched.result":
            tid = e["trial_id"]
            ri = cur[tid]
            if ri.config_index is None:
                continue
            exp = sim_case.expected_for_seed(ctx, ri, ctx.backend_seed)
            key = (tid, ri.index)
            got = delivered.setdefault(key, [])
            pos = len(got)
            r = e["result"]
            lv = r.get(tb.resource_attr)
            ctxs = f"trial {tid} run {ri.index} (resumed_from={ri.resumed_from}, ckpt={ctx.checkpointing}): delivered level {lv} at sim time {r.get('st_tuner_time')}"
            if key in decided:
                raise Violation("delivered-after-stop-or-pause-decision", f"{ctxs}, decision at level {decided[key]}; {sim_case.describe(ctx)['scheduler']}")
            if pos >= len(exp):
                raise Violation("more-deliveries-than-reports", ctxs)
            x = exp[pos]
            if lv != x["level"] or abs(r.get("st_tuner_time", -1) - x["time"]) > 1e-9 * max(1.0, abs(x["time"])):
                raise Violation(
                    "sim-delivery-not-next-report-of-current-run",
                    f"{ctxs}; next report of the current run is level {x['level']} at {x['time']}; {sim_case.describe(ctx)['scheduler']}",
                )
            got.append(lv)
            order.append((tid, lv, r.get("st_tuner_time")))
            if e["decision"] in ("STOP", "PAUSE"):
                decided[key] = lv
                if pos + 1 < len(exp):
                    nontrivial = True
                    labels.add("decision-before-last-report")
    for key in completed_seen:
        if key in decided:
            continue
        ri = runs[key[0]][key[1]]
        if ri.config_index is None:
            continue
        exp = sim_case.expected_for_seed(ctx, ri, ctx.backend_seed)
        got = delivered.get(key, [])
        if got != [x["level"] for x in exp]:
            raise Violation("completed-run-not-fully-delivered", f"trial {key[0]} run {key[1]}: table levels {[x['level'] for x in exp]}, delivered {got}")
    rows = [(r.get("trial_id"), r.get(tb.resource_attr), r.get("st_tuner_time")) for r in run.sim_callback.results]
    if rows != order:
        raise Violation("results-log-differs-from-delivery", f"{rows[:20]} vs {order[:20]}")
    return Result(sorted(labels), nontrivial, {"case": sim_case.describe(ctx), "events": sim_case.brief_events(run, 40)})


SUBCHECKS = {
    "scripted-decisions": {
        "fn": case_decisions,
        "quick": 12000,
        "thorough": 250000,
        "required": ["exit-during-status-read", "mid-batch-decision", "resume-after-late-lines", "completion-seen-after-last-result", "decision-pause", "decision-stop"],
    },
    "scripted-schedulers": {"fn": case_schedulers, "quick": 6000, "thorough": 120000, "required": ["resume", "mid-batch-decision"]},
    "sim": {"fn": case_sim, "quick": 8000, "thorough": 150000, "required": ["resume", "decision-before-last-report"]},
}
