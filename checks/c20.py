"""C20 — a checkpoint exists whenever a trial is resumed or warm-started from it."""
from harness import driver_scripted as ds
from harness import gen_sched
from harness.tape import HarnessError, Result, Violation
from checks.c02 import brief, make_script_fn

PROPERTY = "C20"
LEVEL = "exploration"
RULE = (
    "Real Tuner over the scripted file back-end (real checkpoint directories, real copy_checkpoint / delete_checkpoint / stop_all) with "
    "delete_checkpoints on/off and every pause-and-resume scheduler (promotion Hyperband, PASHA, synchronous Hyperband with its "
    "RemoveCheckpointsCallback, DEHB, PBT), n_workers 1-4, generated scripts; the number of reports flushed per poll and the order of "
    "results of different trials inside one poll are tape choices. Oracle: checkpoint ledger over the history — delete_checkpoint(t) only "
    "inside stop_trial(t) after a STOP decision, at stop_all after tuning ended, or from the (non-speculative) removal call-back for a "
    "paused trial which is then never resumed; never on pause; never with delete_checkpoints=False; at every resume_trial(t) and every "
    "start_trial(checkpoint_trial_id=s) the checkpoint of t / s has not been deleted and its directory exists on disk. "
    "Non-trivial = delete_checkpoints on, >= 1 resume or PBT clone and >= 1 poll returning results of >= 2 trials; distinct = distinct choice tape."
)
ASSUMPTIONS = [
    "speculative early removal (early_checkpoint_removal_kwargs) is not generated: the property exempts it",
    "'can provably never be resumed' is judged on the history: a trial whose checkpoint the call-back removed must not be resumed later in that run",
]


def check_ledger(run, delete_on, removal_callback, labels):
    deleted = {}  # trial -> reason
    state = {}
    stop_ctx = None  # trial currently inside stop_trial
    after_stop_all = False
    tuning_ended = False
    multi_poll = False
    n_resume = 0
    n_clone = 0
    last_decision = {}
    for e in run.events:
        k = e["kind"]
        if k == "tuning_end":
            tuning_ended = True
        elif k == "be.stop_all":
            after_stop_all = True
        elif k == "fetch":
            if len({tid for tid, _ in e["results"]}) >= 2:
                multi_poll = True
                labels.add("poll-with-results-of->=2-trials")
        elif k == "sched.result":
            last_decision[e["trial_id"]] = e["decision"]
        elif k == "be.stop":
            stop_ctx = e["trial_id"]
            state[e["trial_id"]] = "stopped"
            continue
        elif k == "be.pause":
            state[e["trial_id"]] = "paused"
        elif k == "be.delete_checkpoint":
            tid = e["trial_id"]
            if not delete_on:
                raise Violation("delete-although-disabled", f"delete_checkpoint({tid}) with delete_checkpoints=False")
            if after_stop_all:
                deleted.setdefault(tid, "stop_all")
            elif stop_ctx == tid:
                if not tuning_ended and last_decision.get(tid) != "STOP":
                    raise Violation("delete-in-stop-without-stop-decision", f"trial {tid}: last decision {last_decision.get(tid)}")
                deleted[tid] = "stop"
                labels.add("delete-on-stop")
            else:
                if not removal_callback:
                    raise Violation(
                        "checkpoint-deleted-outside-stop",
                        f"delete_checkpoint({tid}) while the trial is {state.get(tid)}: not inside stop_trial, tuning not ended, no early-removal call-back; tail={[(x['kind'], x.get('trial_id')) for x in run.events[max(0, e['i'] - 6): e['i'] + 1]]}",
                    )
                if state.get(tid) != "paused":
                    raise Violation("callback-deletes-checkpoint-of-unpaused-trial", f"trial {tid} is {state.get(tid)}")
                deleted[tid] = "callback"
                labels.add("delete-by-callback")
        elif k == "be.resume":
            tid = e["trial_id"]
            n_resume += 1
            labels.add("resume")
            if tid in deleted:
                raise Violation(
                    f"resume-after-checkpoint-deleted:{deleted[tid]}",
                    f"trial {tid} resumed, its checkpoint was deleted before ({deleted[tid]}); tail={[(x['kind'], x.get('trial_id')) for x in run.events[max(0, e['i'] - 8): e['i'] + 1]]}",
                )
            state[tid] = "running"
        elif k == "be.start":
            src = e.get("checkpoint_trial_id")
            if e.get("trial_id") is not None:
                state[e["trial_id"]] = "running"
            if src is not None:
                n_clone += 1
                labels.add("clone-from-checkpoint")
                if src in deleted:
                    raise Violation(
                        f"clone-from-deleted-checkpoint:{deleted[src]}",
                        f"start_trial(checkpoint_trial_id={src}) but that checkpoint was deleted before ({deleted[src]}); tail={[(x['kind'], x.get('trial_id')) for x in run.events[max(0, e['i'] - 10): e['i'] + 1]]}",
                    )
        elif k == "script.start":
            tid = e["trial_id"]
            if e["run"] > 0 and tid not in deleted and not e["checkpoint_dir_existed"]:
                raise Violation("checkpoint-directory-missing-at-resume", f"trial {tid} run {e['run']}")
        if k != "be.stop":
            if k not in ("be.delete_checkpoint", "script.killed", "script.report"):
                stop_ctx = None
    return delete_on and (n_resume + n_clone) >= 1 and multi_poll


def case(t):
    from syne_tune import StoppingCriterion
    from syne_tune.config_space import uniform

    n_workers = t.int(1, 4)
    max_t = t.int(2, 7)
    use_mra = t.bool()
    fam = t.choice(["hb-promotion", "pbt", "sync-hb", "hb-pasha", "dehb"])
    spec = gen_sched.gen_sched(
        t, {"x": uniform(0.0, 1.0), "y": uniform(0.0, 1.0)}, max_t=max_t, max_resource_attr="epochs" if use_mra else None, families=[fam], n_workers=n_workers
    )
    sched = spec.build()
    delete_on = not t.chance(1, 5)

    def max_t_fn(tid, config):
        return int(config["epochs"]) if use_mra and "epochs" in config else max_t

    nan_rate = 3 if (spec.family == "sync-hb" and t.chance(1, 3)) else 0
    script_fn = make_script_fn(t, max_t_fn, t.bool(), nan_rate=nan_rate)
    crit = StoppingCriterion(max_num_trials_started=t.int(2, 9), max_num_evaluations=80)
    run = ds.run_scripted(t, sched, script_fn, n_workers, crit, delete_checkpoints=delete_on, allow_late_lines=True, max_failures=100)
    labels = {spec.family, "delete-on" if delete_on else "delete-off"}
    if nan_rate:
        labels.add("nan-metrics")
    removal_callback = spec.family == "sync-hb" and delete_on
    # the ledger is checked first: a crash caused by a missing checkpoint is reported as such
    nt = check_ledger(run, delete_on, removal_callback, labels)
    if run.exception is not None and not run.loop_guard:
        e = run.exception
        import traceback

        tb = "".join(traceback.format_exception(type(e), e, e.__traceback__))[-700:]
        raise Violation(f"run-raises:{type(e).__name__}:{spec.family}", f"{spec.describe()} delete={delete_on}: {tb}")
    return Result(sorted(labels), nt, {"scheduler": spec.describe(), "n_workers": n_workers, "delete_checkpoints": delete_on, "events": brief(run, 40)})


SUBCHECKS = {
    "ledger": {"fn": case, "quick": 16000, "thorough": 300000, "required": ["resume", "clone-from-checkpoint", "delete-on-stop", "delete-by-callback", "poll-with-results-of->=2-trials", "delete-off"]},
}
