"""C01 — worker budget and legal trial life cycle in every tuning run."""
from harness import driver_scripted as ds
from harness import gen_sched, lifecycle, sim_case
from harness.tape import HarnessError, Result, Violation
from checks.c02 import brief, make_script_fn

PROPERTY = "C01"
LEVEL = "exploration"
RULE = (
    "Real Tuner in (1) the simulator on generated tables with every scheduler family that runs here (FIFO random/grid, Hyperband "
    "stopping/promotion/PASHA/cost, synchronous Hyperband, DEHB, PBT, MOASHA, median rule, REA), generated delays, sleep times, "
    "n_workers 1-4 and all Tuner flags, and (2) the scripted file back-end (arbitrary batching of reports, completion before/after the "
    "last result, failures, tape-driven or real schedulers). Oracle: life-cycle automaton + occupancy counter + notification grammar "
    "over the recorded history: ids 0,1,2,.. once each; at most n_workers trials occupy workers after every start/resume (with "
    "start_jobs_without_delay=False also busy + started <= n_workers); resume only from paused; no result for a trial that is not "
    "running; on_trial_add once and before the first result; every run that ends before tuning stops gets exactly one of "
    "on_trial_remove (after a STOP/PAUSE decision) / on_trial_complete / on_trial_error, in the same loop iteration. "
    "Non-trivial = >= 2 concurrent trials and >= 1 STOP/PAUSE decision; distinct = distinct choice tape."
)
ASSUMPTIONS = [
    "'at every moment' is judged at every back-end and scheduler call (the loop is single-threaded)",
    "GP-based searchers are exercised in a small share of the simulator cases only (cost)",
]


def case_sim(t):
    ctx = sim_case.gen_case(t, criterion="any")
    run = sim_case.run_case(t, ctx)
    labels = {ctx.spec.family}
    for k, v in ctx.flags.items():
        labels.add(f"{k}={v}")
    if run.exception is not None and not run.loop_guard:
        e = run.exception
        raise Violation(f"run-raises:{type(e).__name__}:{ctx.spec.family}", f"{sim_case.describe(ctx)}: {type(e).__name__}: {e}")
    nt = lifecycle.check_lifecycle(run, ctx.n_workers, labels, start_jobs_without_delay=ctx.flags.get("start_jobs_without_delay", True))
    return Result(sorted(labels), nt, {"case": sim_case.describe(ctx), "events": sim_case.brief_events(run, 40)})


def case_scripted(t):
    from syne_tune import StoppingCriterion
    from syne_tune.config_space import uniform

    use_decisions = t.chance(1, 3)
    n_workers = t.int(1, 4)
    max_t = t.int(1, 6)
    use_mra = False
    labels = set()
    if use_decisions:
        sched = ds.make_decision_scheduler(t, max_trials=t.int(1, 6))
        labels.add("tape-decisions")
        desc = "tape-decisions"
    else:
        use_mra = t.bool()
        spec = gen_sched.gen_sched(
            t,
            {"x": uniform(0.0, 1.0), "y": uniform(0.0, 1.0)},
            max_t=max(max_t, 2),
            max_resource_attr="epochs" if use_mra else None,
            families=["fifo-random", "hb-stopping", "hb-promotion", "median", "sync-hb", "pbt", "hb-pasha", "dehb"],
            n_workers=n_workers,
        )
        max_t = max(max_t, 2)
        sched = spec.build()
        labels.add(spec.family)
        desc = spec.describe()

    def max_t_fn(tid, config):
        return int(config["epochs"]) if use_mra and "epochs" in config else max_t

    fail = t.chance(1, 2)
    if not use_decisions and spec.family in ("dehb", "sync-hb"):
        fail = False  # DEHB cannot digest failed jobs, synchronous brackets resume failed trials: known findings of C05 / C13
    script_fn = make_script_fn(t, max_t_fn, t.bool(), fail_rate=5 if fail else 0)
    flags = {}
    if t.chance(1, 4):
        flags["start_jobs_without_delay"] = False
    if t.chance(1, 4):
        flags["asynchronous_scheduling"] = False
    crit = StoppingCriterion(max_num_trials_started=t.int(2, 8), max_num_evaluations=60)
    run = ds.run_scripted(t, sched, script_fn, n_workers, crit, allow_late_lines=True, max_failures=100, tuner_flags=flags)
    for k, v in flags.items():
        labels.add(f"{k}={v}")
    if run.exception is not None and not run.loop_guard:
        e = run.exception
        import traceback

        tb = "".join(traceback.format_exception(type(e), e, e.__traceback__))[-700:]
        raise Violation(f"run-raises:{type(e).__name__}", f"{desc} mra={use_mra}: {tb}")
    nt = lifecycle.check_lifecycle(run, n_workers, labels, start_jobs_without_delay=flags.get("start_jobs_without_delay", True))
    return Result(sorted(labels), nt, {"scheduler": desc, "n_workers": n_workers, "events": brief(run)})


SUBCHECKS = {
    "sim": {"fn": case_sim, "quick": 12000, "thorough": 250000, "required": ["resume", "concurrent>=2", "decision-stop", "decision-pause"] + gen_sched.FAMILIES_MODEL_FREE},
    "scripted": {"fn": case_scripted, "quick": 8000, "thorough": 150000, "required": ["resume", "failure", "concurrent>=2", "same-poll-decision-and-complete"]},
}
