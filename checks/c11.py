"""C11 — seeded runs are reproducible."""
import json
import os
import random
import subprocess
import sys
import tempfile

import numpy as np

from harness import driver_protocol as dp
from harness import driver_sim, gen_sched, sim_case
from harness.tape import HarnessError, Result, Tape, Violation

PROPERTY = "C11"
LEVEL = "exploration"
RULE = (
    "(in-process twins) two schedulers built with the same arguments and random_seed (FIFO random/grid, all Hyperband variants, "
    "synchronous Hyperband, DEHB, PBT, regularised evolution, median rule) are driven in lockstep with the same tape-chosen events; before "
    "every call of either twin numpy's and Python's global generators are re-seeded with different tape values, and further independent "
    "scheduler instances are constructed and driven in between. (fresh-process twins) the same scenario (protocol history incl. GP "
    "Bayesian-optimisation searchers single- and multi-fidelity, or a whole simulated Tuner run with the harness clock) is replayed from its "
    "choice tape in two child processes with different PYTHONHASHSEED values and different global-RNG seeds. Oracle: identical traces "
    "(suggestions incl. configurations, decisions) / byte-identical result tables. Non-trivial = >= 5 suggestions, >= 1 RNG perturbation "
    "and >= 1 decision other than CONTINUE; distinct = distinct choice tape."
)
ASSUMPTIONS = [
    "MOASHA takes no random_seed and is outside the property's quantifier",
    "GP-based searchers are compared across fresh processes only (the property does not promise bit-equality inside one process)",
]

FAMILIES = ["fifo-random", "fifo-grid", "hb-stopping", "hb-promotion", "hb-pasha", "hb-cost", "sync-hb", "dehb", "pbt", "median", "rea"]
GP_OPTS = {"num_init_random": 2, "opt_nstarts": 1, "opt_maxiter": 4, "num_init_candidates": 6, "debug_log": False, "opt_skip_init_length": 50}


def _ev_key(e):
    cfg = e.get("config")
    if cfg is not None:
        cfg = sorted((k, repr(v)) for k, v in cfg.items() if k != "elapsed_time")
    return [e.op, e.get("kind"), e.get("trial_id"), e.get("level"), e.get("decision"), cfg]


def build(t, fam_list, gp=False):
    from syne_tune.config_space import choice, finrange, logfinrange, loguniform, qrandint, quniform, randint, uniform

    max_t = t.weighted([(2, 9), (2, 4), (2, None)])
    if max_t is None:
        max_t = t.int(2, 10)
    fam = t.choice(fam_list)
    use_mra = t.bool() if fam in ("hb-promotion", "hb-pasha", "hb-cost", "sync-hb", "dehb") else False
    if fam == "fifo-grid":
        cs = {"x": choice(["a", "b", "c"]), "y": randint(0, 3)}
    else:
        cs = {"x": uniform(0.0, 1.0), "y": randint(0, 5), "z": choice(["u", "v", "w"]), "w": finrange(0.0, 1.0, 6), "v": logfinrange(0.001, 1.0, 4), "u": loguniform(0.001, 1.0), "q": quniform(0.0, 1.0, 0.25), "p": qrandint(0, 8, 2)}
    n_workers = t.int(1, 4)
    spec = gen_sched.gen_sched(t, cs, max_t=max_t, max_resource_attr="epochs" if use_mra else None, families=[fam], cost_attr="cost", n_workers=n_workers)
    if gp:
        which = t.choice(["fifo-bo", "hb-bo-stopping", "hb-bo-promotion"])
        if which == "fifo-bo":
            spec = gen_sched.SchedSpec("fifo-bo", "FIFOScheduler", dict(metric="loss", mode=t.choice(["min", "max"]), random_seed=t.int(0, 10**6), searcher="bayesopt", search_options=dict(GP_OPTS)), dict(cs))
        else:
            typ = "stopping" if which.endswith("stopping") else "promotion"
            spec = gen_sched.SchedSpec(
                which, "HyperbandScheduler",
                dict(metric="loss", mode=t.choice(["min", "max"]), random_seed=t.int(0, 10**6), searcher="bayesopt", search_options=dict(GP_OPTS),
                     type=typ, resource_attr="epoch", max_t=max_t, grace_period=1, reduction_factor=t.choice([2, 3])),
                dict(cs),
            )
            spec.pause_resume = typ == "promotion"
            use_mra = False
    return spec, max_t, use_mra, n_workers


def case_twins(t):
    spec, max_t, use_mra, n_workers = build(t, FAMILIES)
    fam = spec.family
    perturb = [0]

    def reseed():
        perturb[0] += 1
        np.random.seed(t.int(0, 2**31 - 2))
        random.seed(t.int(0, 2**31 - 2))

    reseed()
    A = spec.build()
    others = []
    if t.bool():
        reseed()
        others.append(spec.build())  # an unrelated instance created in between
    reseed()
    B = spec.build()
    tkA, tkB = dp.make_time_keeper(), dp.make_time_keeper()
    for s_, tk in ((A, tkA), (B, tkB)):
        inner = getattr(s_, "scheduler", s_)
        if hasattr(inner, "set_time_keeper"):
            inner.set_time_keeper(tk)
    curve = {}

    def result_fn(tid, config, level):
        key = (tid, level)
        if key not in curve:
            curve[key] = {"loss": t.float(0.0, 1.0), "cost": float(t.int(1, 5))}
        return dict(curve[key])

    def result_B(tid, config, level):
        return dict(curve[(tid, level)])

    def cap(config):
        return int(config["epochs"]) if use_mra and "epochs" in config else max_t

    kwargs = dict(level_cap_fn=cap, n_workers=n_workers, max_trials=t.int(2, 10), max_steps=t.weighted([(3, 30), (2, 60)]), checkpointing=not t.chance(1, 3), allow_fail=t.chance(1, 4) and fam not in ("dehb", "sync-hb"))
    dA = dp.ProtocolDriver(A, t, result_fn, time_keeper=tkA, **kwargs)
    dB = dp.ProtocolDriver(B, None, result_B, time_keeper=tkB, **kwargs)
    # the interleaved instance gets its own driver and is advanced at tape-chosen moments
    dO = None
    if others:
        tkO = dp.make_time_keeper()
        inner = getattr(others[0], "scheduler", others[0])
        if hasattr(inner, "set_time_keeper"):
            inner.set_time_keeper(tkO)
        ocurve = {}

        def result_O(tid, config, level):
            return {"loss": ocurve.setdefault((tid, level), t.float(0.0, 1.0)), "cost": 1.0}

        dO = dp.ProtocolDriver(others[0], t, result_O, time_keeper=tkO, **kwargs)
    labels = {fam}
    n_sugg = 0
    nonc = 0
    step = 0
    while True:
        step += 1
        if dO is not None and t.chance(1, 3):
            try:
                dO.step()
                labels.add("interleaved-instance")
            except Violation:
                dO = None
        reseed()
        pos = len(t.log)
        try:
            evA = dA.step()
        except Violation as v:
            if v.kind == "resume-of-non-paused-trial":
                break
            raise
        if evA is None:
            break
        draws = t.log[pos:]
        reseed()
        dB.t = Tape(log=draws)
        try:
            evB = dB.step()
        except Violation as v:
            raise Violation("twin-diverges:" + v.kind, f"{spec.describe()}: {v.detail}")
        if evB is None or _ev_key(evA) != _ev_key(evB):
            raise Violation(
                f"seeded-twins-differ:{fam}",
                f"{spec.describe()} step {step}: A -> {_ev_key(evA)} ; B -> {None if evB is None else _ev_key(evB)} ; tail {[_ev_key(e)[:5] for e in dA.trace[-6:]]}",
            )
        if evA.op == "suggest":
            n_sugg += 1
        if evA.get("decision") in ("STOP", "PAUSE"):
            nonc += 1
    nt = n_sugg >= 5 and perturb[0] >= 1 and nonc >= 1
    return Result(sorted(labels), nt, {"scheduler": spec.describe(), "events": [_ev_key(e)[:5] for e in dA.trace[:30]]})


# ---- scenarios replayable in a fresh process ------------------------------------------------------
def scenario_protocol(t):
    gp = t.chance(1, 2)
    spec, max_t, use_mra, n_workers = build(t, ["hb-pasha", "hb-promotion", "hb-stopping", "pbt", "dehb", "rea", "fifo-random"], gp=gp)
    S = spec.build()
    tk = dp.make_time_keeper()
    inner = getattr(S, "scheduler", S)
    if hasattr(inner, "set_time_keeper"):
        inner.set_time_keeper(tk)
    curve = {}

    def result_fn(tid, config, level):
        return {"loss": curve.setdefault((tid, level), t.float(0.0, 1.0)), "cost": 1.0}

    def cap(config):
        return int(config["epochs"]) if use_mra and "epochs" in config else max_t

    d = dp.ProtocolDriver(S, t, result_fn, level_cap_fn=cap, n_workers=n_workers, max_trials=t.int(3, 8), max_steps=25 if spec.family.startswith(("fifo-bo", "hb-bo")) else 60, time_keeper=tk)
    while d.step() is not None:
        pass
    return {"scheduler": spec.describe(), "trace": [_ev_key(e) for e in d.trace]}


def scenario_sim(t):
    # (MOASHA takes no random_seed; a back-end seed of None draws per-trial seeds from the global generator by design)
    ctx = sim_case.gen_case(t, criterion="simple", backend_seed_modes=("fixed",), families=[f for f in gen_sched.FAMILIES_MODEL_FREE if f != "moasha"])
    run = sim_case.run_case(t, ctx)
    rows = run.sim_callback.results
    cols = sorted({k for r in rows for k in r})
    table = [[repr(r.get(c)) for c in cols] for r in rows]
    return {"scheduler": ctx.spec.describe(), "columns": cols, "trace": table, "exception": None if run.exception is None else repr(run.exception)}


def scenario_protocol_modelfree(t):
    """model-free only (cheap): all families which iterate over containers of strings somewhere"""
    spec, max_t, use_mra, n_workers = build(t, ["pbt", "pbt", "hb-pasha", "dehb", "rea", "sync-hb", "hb-promotion", "hb-stopping", "hb-cost", "median", "fifo-random", "fifo-grid"], gp=False)
    S = spec.build()
    tk = dp.make_time_keeper()
    inner = getattr(S, "scheduler", S)
    if hasattr(inner, "set_time_keeper"):
        inner.set_time_keeper(tk)
    curve = {}

    def result_fn(tid, config, level):
        return {"loss": curve.setdefault((tid, level), t.float(0.0, 1.0)), "cost": float(t.int(1, 3))}

    def cap(config):
        return int(config["epochs"]) if use_mra and "epochs" in config else max_t

    d = dp.ProtocolDriver(S, t, result_fn, level_cap_fn=cap, n_workers=n_workers, max_trials=t.int(3, 8), max_steps=60, time_keeper=tk,
                          allow_fail=t.chance(1, 4) and spec.family not in ("dehb", "sync-hb"))
    try:
        while d.step() is not None:
            pass
    except Violation as v:
        return {"scheduler": spec.describe(), "trace": [_ev_key(e) for e in d.trace] + [["violation", v.kind]]}
    return {"scheduler": spec.describe(), "trace": [_ev_key(e) for e in d.trace]}


def scenario_batch(t):
    """Several model-free scenarios in one process: the import cost of a child process is paid once."""
    outs = [scenario_protocol_modelfree(t) for _ in range(8)]
    return {"scheduler": {"family": "batch:" + "+".join(sorted({str(o["scheduler"].get("family")) for o in outs}))}, "trace": [[json.dumps(o, default=repr, sort_keys=True)] for o in outs]}


SCENARIOS = {"protocol": scenario_protocol, "sim": scenario_sim, "batch": scenario_batch}


def run_child(name, log, hashseed, gseed):
    fd, path = tempfile.mkstemp(prefix="verif_c11_", suffix=".json")
    os.close(fd)
    try:
        with open(path, "w") as f:
            json.dump({"scenario": name, "log": log, "global_seed": gseed}, f)
        envv = dict(os.environ)
        envv["PYTHONHASHSEED"] = str(hashseed)
        here = os.path.dirname(os.path.dirname(os.path.abspath(__file__)))
        envv["PYTHONPATH"] = here + os.pathsep + envv.get("PYTHONPATH", "")
        p = subprocess.run([sys.executable, "-m", "harness.child", path], cwd=here, env=envv, capture_output=True, text=True, timeout=900)
        if p.returncode != 0:
            raise HarnessError(f"child failed rc={p.returncode}: {p.stderr[-1500:]}")
        return p.stdout
    finally:
        if os.path.exists(path):
            os.remove(path)


def case_fresh(t):
    name = t.weighted([(1, "protocol"), (1, "sim"), (2, "batch")])
    pos = len(t.log)
    sub = Tape(data=t._data) if t._data is not None else None
    # run the scenario here once to obtain its tape (and, for model-free schedulers, the reference trace)
    start = len(t.log)
    out = SCENARIOS[name](t)
    log = t.log[start:]
    h1, h2 = 0, t.choice([1, 2, 12345, 987654321])
    g1, g2 = t.int(0, 10**6), t.int(0, 10**6)
    o1 = run_child(name, log, h1, g1)
    o2 = run_child(name, log, h2, g2)
    fam = out["scheduler"].get("family")
    labels = {name, "hashseed-differs"} | ({str(fam)} if name != "batch" else set(str(fam)[len("batch:"):].split("+")))
    if o1 != o2:
        a, b = json.loads(o1), json.loads(o2)
        k = next((i for i, (x, y) in enumerate(zip(a["trace"], b["trace"])) if x != y), min(len(a["trace"]), len(b["trace"])))
        if name == "batch" and k < len(a["trace"]):
            try:
                fam = json.loads(a["trace"][k][0])["scheduler"].get("family")
            except Exception:
                fam = "batch"
        raise Violation(
            f"fresh-process-twins-differ:{name}:{fam}",
            f"{out['scheduler']}: PYTHONHASHSEED {h1} vs {h2}, global seeds {g1} vs {g2}: first difference at row {k}: {a['trace'][k] if k < len(a['trace']) else None} vs {b['trace'][k] if k < len(b['trace']) else None}",
        )
    tr = json.loads(o1)["trace"]
    nt = len(tr) >= 5
    return Result(sorted(labels), nt, {"scenario": name, "scheduler": out["scheduler"], "rows": len(tr), "head": tr[:5]})


SUBCHECKS = {
    "twins": {"fn": case_twins, "quick": 16000, "thorough": 300000, "required": FAMILIES + ["interleaved-instance"]},
    "fresh-process": {"fn": case_fresh, "quick": 48, "thorough": 800, "min_per_shard": 3, "required": ["protocol", "sim", "batch", "pbt", "hashseed-differs"]},
}
