"""C05 — synchronous Hyperband fills rungs exactly and promotes exactly the top trials."""
import itertools
import math

from harness import driver_protocol as dp
from harness.ref_sync import RefSync, key_of
from harness.tape import HarnessError, Result, Violation
from harness.watchdog import time_limit

PROPERTY = "C05"
LEVEL = "exploration"
RULE = (
    "(a) generated rule-based histories on SynchronousHyperbandBracketManager and the DEHB bracket manager: next_job / on_result "
    "of any outstanding job in any order, metric or NaN (failure), geometric and custom rung systems (1..4 rungs, sizes <= 9, 1..4 "
    "brackets), both modes; (b) SynchronousHyperbandScheduler and DEHB driven by the protocol driver with failures at tape-chosen "
    "jobs, with/without max_resource_attr and checkpointing. Oracle: reference bracket model from the doc-strings — the job handed out "
    "belongs to the lowest open bracket with a free slot else a new bracket whose rung system is bracket_rungs[id mod n]; a rung of "
    "size n gets n distinct trials; resumes only after the rung below is complete, only trials for which fewer than size_{k+1} "
    "entries are strictly better (NaN last), each once; suggest never blocks. (c) all orders of results for small systems are "
    "enumerated completely. Non-trivial = results of >= 2 open brackets interleave or a job failed; distinct = distinct choice tape."
)
ASSUMPTIONS = [
    "among exact ties and among failed (NaN) entries any choice is accepted",
    "DEHB: promotion of exactly the top applies to its first bracket (the only one that promotes); later brackets are checked for rung filling, bracket cycling and never blocking",
]


def gen_rung_system(t, allow_geometric=True):
    """Returns (bracket_rungs, label)."""
    if allow_geometric and t.chance(1, 3):
        from syne_tune.optimizer.schedulers.synchronous.hyperband_rung_system import (
            SynchronousHyperbandRungSystem,
        )

        min_r = t.weighted([(3, 1), (1, 2), (1, 3)])
        max_r = t.weighted([(2, 9), (2, 4), (1, 8), (1, 27), (2, None)])
        if max_r is None:
            max_r = t.int(min_r + 1, 30)
        max_r = max(max_r, min_r + 1)
        rf = t.weighted([(3, 3), (3, 2), (1, 4), (1, 2.5)])
        nb = t.weighted([(2, None), (2, 1), (1, 2), (1, 3)])
        try:
            rs = SynchronousHyperbandRungSystem.geometric(min_r, max_r, rf, nb)
        except AssertionError:
            return None, "geometric-rejected"
        rs = [[(int(s), int(l)) for s, l in r] for r in rs]
        return rs, "geometric"
    nr = t.weighted([(2, 2), (2, 3), (1, 1), (1, 4)])
    levels = []
    lv = 0
    for _ in range(nr):
        lv += t.int(1, 3)
        levels.append(lv)
    nb = t.int(1, nr)
    rs = []
    for off in range(nb):
        k = nr - off
        sizes = []
        s = 0
        for _ in range(k):
            s += t.int(1, 3)
            sizes.append(s)
        sizes = sizes[::-1]
        if sizes[0] > 9:
            sizes = list(range(k, 0, -1))
        rs.append(list(zip(sizes, levels[off:])))
    return rs, "custom"


def gen_metric(t, ties, allow_nan=True):
    if allow_nan and t.chance(1, 6):
        return float("nan")
    if ties:
        return float(t.int(0, 3))
    return t.float(0.0, 1.0)


def _check_not_promoted(ref, bid, rung_done_index, not_promoted, ctx):
    """Return value of on_result when a rung (not the last) completes."""
    b = ref.brackets[bid]
    prev = b.history[rung_done_index]
    trials = [tr for tr, _ in prev]
    new_len = b.rungs[rung_done_index + 1][0]
    if not_promoted is None:
        raise Violation("not-promoted-list-missing", f"{ctx}: rung {prev} completed, next rung has {new_len} slots, on_result returned None")
    if sorted(not_promoted) != sorted(set(not_promoted)) or any(x not in trials for x in not_promoted):
        raise Violation("not-promoted-list-invalid", f"{ctx}: {not_promoted} vs rung {prev}")
    top = [x for x in trials if x not in not_promoted]
    if len(top) != new_len:
        raise Violation("promoted-count", f"{ctx}: rung {prev} -> promoted {top}, next rung has {new_len} slots")
    for x in top:
        k = key_of(dict(prev)[x], ref.mode)
        better = sum(1 for _, m in prev if key_of(m, ref.mode) < k)
        if better >= new_len:
            raise Violation("promoted-not-top", f"{ctx}: mode={ref.mode} rung {prev}: {x} promoted although {better} entries are strictly better (next rung {new_len} slots)")


def run_manager_history(t, dehb, ops_from_enum=None):
    from syne_tune.optimizer.schedulers.synchronous.dehb_bracket_manager import (
        DifferentialEvolutionHyperbandBracketManager,
    )
    from syne_tune.optimizer.schedulers.synchronous.hyperband_bracket_manager import (
        SynchronousHyperbandBracketManager,
    )

    mode = t.choice(["min", "max"])
    if dehb:
        rs, lab = gen_rung_system(t, allow_geometric=False)
        first = rs[0]
        nb = t.int(1, len(first))
        try:
            mgr = DifferentialEvolutionHyperbandBracketManager(first, mode, nb)
        except AssertionError as e:
            return Result(["constructor-rejected"], False, None)
        rs = [first[o:] for o in range(nb)]
    else:
        rs, lab = gen_rung_system(t)
        if rs is None:
            return Result([lab], False, None)
        try:
            mgr = SynchronousHyperbandBracketManager(rs, mode)
        except AssertionError as e:
            return Result(["constructor-rejected"], False, {"rungs": rs, "error": str(e)[:200]})
    ref = RefSync(rs, mode)
    ties = t.chance(1, 2)
    width = t.int(1, 6)
    n_steps = t.weighted([(3, 30), (2, 60), (1, 10)])
    outstanding = []  # (bid, slot, pos_in_ref)
    next_trial = 0
    labels = {lab, mode, "dehb" if dehb else "sync"}
    trace = []
    interleave = False
    failed = False
    ctx0 = f"rungs={rs} mode={mode}"
    last_result_bracket = None
    dehb_top = {}
    for step in range(n_steps):
        do_job = (not outstanding) or (len(outstanding) < width and t.chance(1, 2))
        if do_job:
            want = ref.expect_next_job()
            bid, slot = mgr.next_job()
            ctx = f"{ctx0} trace={trace[-8:]}"
            if slot is None:
                raise Violation("next-job-blocks", ctx)
            if (bid, slot.rung_index, slot.level) != want[:3]:
                raise Violation(
                    "job-from-wrong-bracket",
                    f"{ctx}: got bracket {bid} rung {slot.rung_index} level {slot.level}, documented rule gives bracket {want[0]} rung {want[1]} level {want[2]}",
                )
            if want[3]:
                labels.add("new-bracket-opened")
            b_exists = bid < len(ref.brackets)
            if slot.rung_index == 0 or dehb:
                if slot.trial_id is not None:
                    raise Violation("base-rung-slot-has-trial", f"{ctx}: {slot}")
                trial = next_trial
                next_trial += 1
                if dehb and slot.rung_index > 0 and bid == 0:
                    # first bracket of DEHB promotes: position-wise top list
                    tp = mgr.top_of_previous_rung(bid, slot.slot_index)
                    why = None
                    prev = ref.brackets[bid].history[slot.rung_index - 1]
                    if tp not in [x for x, _ in prev]:
                        why = f"{tp} not in completed rung {prev}"
                    else:
                        new_len = ref.brackets[bid].rungs[slot.rung_index][0]
                        k = key_of(dict(prev)[tp], mode)
                        better = sum(1 for _, m in prev if key_of(m, mode) < k)
                        if better >= new_len:
                            why = f"{better} entries of {prev} strictly better than {tp}, rung has {new_len} slots"
                        seen = dehb_top.setdefault((bid, slot.rung_index), set())
                        if tp in seen:
                            why = f"{tp} returned for two positions"
                        seen.add(tp)
                    if why:
                        raise Violation("dehb-top-of-previous-rung", f"{ctx}: pos {slot.slot_index}: {why}")
                    labels.add("dehb-promotion")
            else:
                trial = slot.trial_id
                why = ref.promotion_valid(bid, trial)
                if why:
                    raise Violation("promoted-not-top", f"{ctx}: bracket {bid} rung {slot.rung_index}: {why}")
                labels.add("promotion")
            pos = ref.assign(bid, trial)
            outstanding.append((bid, slot, pos, trial))
            trace.append(("job", bid, slot.rung_index, slot.level, trial))
        else:
            i = t.index(len(outstanding))
            bid, slot, pos, trial = outstanding.pop(i)
            m = gen_metric(t, ties)
            if isinstance(m, float) and math.isnan(m):
                failed = True
                labels.add("failed-job")
            from syne_tune.optimizer.schedulers.synchronous.hyperband_bracket import SlotInRung

            res = SlotInRung(rung_index=slot.rung_index, level=slot.level, slot_index=slot.slot_index, trial_id=trial, metric_val=m)
            rung_index = slot.rung_index
            ret = mgr.on_result((bid, res))
            done = ref.on_result(bid, pos, trial, m)
            trace.append(("res", bid, rung_index, trial, m))
            ctx = f"{ctx0} trace={trace[-8:]}"
            if last_result_bracket is not None and last_result_bracket != bid and len(ref.open_brackets()) >= 1:
                interleave = True
                labels.add("interleaved-brackets")
            last_result_bracket = bid
            b = ref.brackets[bid]
            if done and not dehb and rung_index + 1 < len(b.rungs):
                _check_not_promoted(ref, bid, rung_index, ret, ctx)
                labels.add("rung-completed")
            elif not done and ret not in (None, []):
                raise Violation("promotion-before-rung-complete", f"{ctx}: on_result returned {ret} while {b.num_pending()} slots pending")
    return Result(sorted(labels), interleave or failed, {"rungs": rs, "mode": mode, "trace": trace[:30]})


def case_manager(t):
    return run_manager_history(t, dehb=False)


def case_dehb_manager(t):
    return run_manager_history(t, dehb=True)


# ----------------------------------------------------------------------------
def case_scheduler(t):
    from syne_tune.config_space import uniform
    from syne_tune.optimizer.schedulers.synchronous import (
        DifferentialEvolutionHyperbandScheduler,
        SynchronousHyperbandScheduler,
    )

    dehb = t.chance(1, 3)
    mode = t.choice(["min", "max"])
    rs, lab = gen_rung_system(t, allow_geometric=not dehb)
    if rs is None:
        return Result([lab], False, None)
    use_mra = t.bool()
    checkpointing = not t.chance(1, 3)
    max_level = rs[0][-1][1]
    cs = {"x": uniform(0.0, 1.0), "y": uniform(0.0, 1.0)}
    kwargs = dict(metric="loss", mode=mode, resource_attr="epoch", random_seed=t.int(0, 2**31 - 2))
    if use_mra:
        cs["epochs"] = max_level
        kwargs["max_resource_attr"] = "epochs"
    else:
        kwargs["max_resource_level"] = max_level
    support_pr = True
    hang_class = False
    try:
        if dehb:
            # num_brackets_per_iteration < number of rungs is a listed known finding
            # (suggest never returns): generated rarely, decided under a watchdog
            nb = len(rs[0]) if not t.chance(1, 20) else t.int(1, len(rs[0]))
            hang_class = nb < len(rs[0])
            support_pr = not t.chance(1, 4)
            sched = DifferentialEvolutionHyperbandScheduler(
                cs, rungs_first_bracket=rs[0], num_brackets_per_iteration=nb, support_pause_resume=support_pr,
                search_options={"debug_log": False}, **kwargs
            )
            rs = [rs[0][o:] for o in range(nb)]
        else:
            sched = SynchronousHyperbandScheduler(cs, bracket_rungs=rs, searcher="random", search_options={"debug_log": False}, **kwargs)
    except AssertionError as e:
        return Result(["constructor-rejected"], False, {"rungs": rs, "error": str(e)[:200]})
    ref = RefSync(rs, mode)
    ties = t.chance(1, 3)
    curve = {}

    def result_fn(tid, config, level):
        key = (tid, level)
        if key not in curve:
            curve[key] = float(t.int(0, 3)) if ties else t.float(0.0, 1.0)
        return {"loss": curve[key]}

    target = {}
    job = {}

    def level_cap(config):
        return config["epochs"] if use_mra else max_level

    n_workers = t.int(1, 5)
    allow_fail = True
    if dehb:
        # DEHB needs >= 3 finished trials before a second bracket can be served and
        # cannot digest a rung whose jobs (nearly) all failed: listed known findings,
        # generated rarely so that the search goes on behind them
        if not t.chance(1, 10):
            n_workers = min(n_workers, rs[0][0][0] if rs[0][0][0] >= 3 else 1)
            allow_fail = False
    drv = dp.ProtocolDriver(
        sched, t, result_fn, level_cap_fn=level_cap, n_workers=n_workers, max_trials=40,
        max_steps=t.weighted([(3, 50), (2, 100), (1, 20)]), checkpointing=checkpointing, allow_fail=allow_fail, fail_weight=1,
    )
    labels = {lab, mode, "dehb" if dehb else "sync", "mra" if use_mra else "no-mra", "checkpointing" if checkpointing else "restart"}
    ctx0 = f"{'dehb' if dehb else 'sync'} rungs={rs} mode={mode} mra={use_mra} ckpt={checkpointing}"
    nontrivial = False
    last_b = None
    while True:
        want = ref.expect_next_job()
        if dehb and hang_class:
            try:
                with time_limit(3.0, "dehb-suggest-hangs:num_brackets_per_iteration<num_rungs", f"{ctx0}: suggest did not return within 3 s (normal: milliseconds)"):
                    ev = drv.step()
            except (IndexError, AssertionError, KeyError) as e:
                # same root cause: bracket_delta <= 0 walks to the right instead of the left
                raise Violation("dehb-suggest-hangs:num_brackets_per_iteration<num_rungs", f"{ctx0}: {type(e).__name__}: {e}")
        else:
            try:
                ev = drv.step()
            except AssertionError as e:
                if dehb and "parent pool" in str(e):
                    raise Violation("dehb-parent-pool-too-small", f"{ctx0} n_workers={n_workers}: suggest raises AssertionError: {e}")
                raise
            except KeyError as e:
                if dehb and e.args == (None,):
                    raise Violation("dehb-failed-slot-used-as-parent", f"{ctx0}: suggest raises KeyError(None) after a failed job")
                raise
            except Violation as v:
                if v.kind == "resume-of-non-paused-trial" and not dehb and drv.n_fails > 0:
                    # not enough valid entries to fill the next rung: the documented
                    # rule promotes failed entries last; fine for C05 (C13 judges it)
                    return Result(sorted(labels) + ["failed-trial-promoted"], True, None)
                raise
        if ev is None:
            break
        tail = [(e.op, e.get("kind"), e.get("trial_id"), e.get("level"), e.get("decision")) for e in drv.trace[-8:]]
        ctx = f"{ctx0} tail={tail}"
        if ev.op == "suggest":
            bid, rung_index, level, new_b = want
            if ev.kind == "none":
                if dehb and drv.n_fails > 0:
                    raise Violation("dehb-suggest-none-after-failures", f"{ctx}: suggest returned None")
                raise Violation("suggest-blocks", f"{ctx}: suggest returned None")
            if new_b:
                labels.add("new-bracket-opened")
            tid = ev.trial_id
            if ev.kind == "start":
                promo_due = rung_index > 0 and (not dehb or (bid == 0 and support_pr))
                if promo_due:
                    raise Violation("new-trial-instead-of-promotion", f"{ctx}: bracket {bid} rung {rung_index} has free slots for promoted trials")
            else:
                if rung_index == 0 or (dehb and not (bid == 0 and support_pr)):
                    raise Violation("resume-instead-of-new-trial", f"{ctx}: next job is bracket {bid} rung {rung_index}")
                why = ref.promotion_valid(bid, tid)
                if why:
                    raise Violation("promoted-not-top", f"{ctx}: bracket {bid} rung {rung_index}: {why}")
                labels.add("promotion")
                if not checkpointing:
                    labels.add("restart-after-resume")
            if use_mra:
                got = None if ev.config is None else ev.config.get("epochs")
                if got != level:
                    raise Violation("job-level", f"{ctx}: trial {tid}: config[epochs]={got}, rung level {level}")
            pos = ref.assign(bid, tid)
            target[tid] = level
            job[tid] = (bid, pos)
            continue
        tid = ev.trial_id
        if ev.op == "fail":
            labels.add("failed-job")
            nontrivial = True
            if tid in job:
                bid, pos = job.pop(tid)
                ref.on_result(bid, pos, tid, float("nan"))
            continue
        # report
        tgt = target[tid]
        bid, pos = job[tid]
        if ev.level < tgt:
            want_dec = {"CONTINUE"}
        elif dehb:
            want_dec = {"PAUSE"} if (support_pr and bid == 0) else {"STOP"}
        else:
            want_dec = {"PAUSE"}
        if ev.decision not in want_dec:
            raise Violation("decision", f"{ctx}: trial {tid} level {ev.level} target {tgt} bracket {bid}: {ev.decision}, expected {sorted(want_dec)}")
        if ev.level == tgt:
            if dehb and bid > 0:
                # selection may put the target trial into the slot; the slot content is
                # not used for promotions (only bracket 0 promotes)
                ref.on_result(bid, pos, tid, ev.result["loss"])
            else:
                ref.on_result(bid, pos, tid, ev.result["loss"])
            del job[tid]
            if last_b is not None and last_b != bid:
                labels.add("interleaved-brackets")
                nontrivial = True
            last_b = bid
    return Result(sorted(labels), nontrivial, {"rungs": rs, "mode": mode, "dehb": dehb, "events": [(e.op, e.get("kind"), e.get("trial_id"), e.get("level"), e.get("decision")) for e in drv.trace[:40]]})


# exhaustive: every order of results, every failure subset, for small systems ----
SMALL_SYSTEMS = [
    [[(2, 1), (1, 2)]],
    [[(3, 1), (1, 3)]],
    [[(3, 1), (2, 2), (1, 3)]],
    [[(2, 1), (1, 2)], [(1, 2)]],
    [[(3, 1), (1, 3)], [(2, 3)]],
]


def enum_small(tier):
    """log = [system index, mode, width, then a fixed-length list of (choice, metric-code) pairs]"""
    n_jobs = 5 if tier == "quick" else 6
    for si in range(len(SMALL_SYSTEMS)):
        for mode in (0, 1):
            for width in (2, 3):
                for picks in itertools.product(range(3), repeat=n_jobs):
                    for mets in itertools.product(range(3), repeat=n_jobs):
                        yield [si, mode, width] + [x for p in zip(picks, mets) for x in p]


def case_small(t):
    from syne_tune.optimizer.schedulers.synchronous.hyperband_bracket import SlotInRung
    from syne_tune.optimizer.schedulers.synchronous.hyperband_bracket_manager import (
        SynchronousHyperbandBracketManager,
    )

    rs = SMALL_SYSTEMS[t.int(0, len(SMALL_SYSTEMS) - 1)]
    mode = ["min", "max"][t.int(0, 1)]
    width = t.int(2, 3)
    mgr = SynchronousHyperbandBracketManager(rs, mode)
    ref = RefSync(rs, mode)
    outstanding = []
    next_trial = 0
    trace = []
    failed = False
    inter = False
    last_b = None
    n_results = 0
    while n_results < 6 and not t.overrun:
        # fill up to `width` outstanding jobs, then deliver one result
        while len(outstanding) < width:
            want = ref.expect_next_job()
            bid, slot = mgr.next_job()
            if (bid, slot.rung_index, slot.level) != want[:3]:
                raise Violation("job-from-wrong-bracket", f"rungs={rs} trace={trace}: got {(bid, slot.rung_index, slot.level)} want {want[:3]}")
            if slot.rung_index == 0:
                trial = next_trial
                next_trial += 1
            else:
                trial = slot.trial_id
                why = ref.promotion_valid(bid, trial)
                if why:
                    raise Violation("promoted-not-top", f"rungs={rs} mode={mode} trace={trace}: {why}")
            pos = ref.assign(bid, trial)
            outstanding.append((bid, slot, pos, trial))
            trace.append(("job", bid, slot.rung_index, trial))
        pick = t.int(0, 2) % len(outstanding)
        mcode = t.int(0, 2)
        if t.overrun:
            break
        bid, slot, pos, trial = outstanding.pop(pick)
        m = [0.0, 1.0, float("nan")][mcode]
        failed = failed or mcode == 2
        res = SlotInRung(rung_index=slot.rung_index, level=slot.level, slot_index=slot.slot_index, trial_id=trial, metric_val=m)
        ret = mgr.on_result((bid, res))
        rung_index = slot.rung_index
        done = ref.on_result(bid, pos, trial, m)
        trace.append(("res", bid, rung_index, trial, m))
        if done and rung_index + 1 < len(ref.brackets[bid].rungs):
            _check_not_promoted(ref, bid, rung_index, ret, f"rungs={rs} mode={mode} trace={trace}")
        if last_b is not None and last_b != bid:
            inter = True
        last_b = bid
        n_results += 1
    return Result([mode], failed or inter, {"rungs": rs, "mode": mode, "trace": trace})


SUBCHECKS = {
    "manager": {"fn": case_manager, "quick": 20000, "thorough": 400000, "required": ["promotion", "failed-job", "interleaved-brackets", "new-bracket-opened", "rung-completed"]},
    "dehb-manager": {"fn": case_dehb_manager, "quick": 8000, "thorough": 150000, "required": ["dehb-promotion", "failed-job", "new-bracket-opened"]},
    "scheduler": {"fn": case_scheduler, "quick": 12000, "thorough": 250000, "required": ["promotion", "failed-job", "interleaved-brackets", "dehb", "sync", "restart-after-resume"]},
    "small-exhaustive": {"fn": case_small, "enumerate": enum_small, "quick": 1, "thorough": 1},
}
