"""C07 — domains: samples and decoded vectors are members; encoding round-trips."""
import json
import math

import numpy as np

from harness import gen_domains as gd
from harness.tape import HarnessError, Result, Violation

PROPERTY = "C07"
LEVEL = "exploration"
RULE = (
    "Hypothesis-generated domains from every public constructor (bounds built from a mixture of "
    "special and general values incl. degenerate lower==upper / one category / size 1), seeds, "
    "sample sizes, unit-cube vectors (corners, 0.5 bin boundaries, k/size grid boundaries, interior), "
    "active sub-ranges and a fixed last position; oracle = harness-owned membership predicate + "
    "encode/decode round-trip + JSON round-trip. Non-trivial = the case exercised a degenerate domain, "
    "or a non-degenerate domain together with a boundary vector / boundary member; distinct = distinct choice tape."
)
ASSUMPTIONS = [
    "integer bounds limited to |v| <= 2^31-2 (the library samples with RandomState.randint)",
    "a constructor raising ValueError/AssertionError is 'rejects invalid input', not a violation",
    "quantisation (multiple of q) is required of sampled values only; decoding/casting is checked against bounds and type",
]


def _members(t, spec, n=3):
    """Members of the domain built from the *specification* (not by sampling)."""
    p = spec.params
    out = []
    if spec.is_float:
        lo, up = p["lower"], p["upper"]
        out = [lo, up]
        for _ in range(n):
            out.append(t.float(lo, up))
        if spec.is_log and lo > 0:
            out.append(min(max(math.sqrt(lo) * math.sqrt(up), lo), up))
    elif spec.is_int:
        lo, up = p["lower"], p["upper"]
        out = [lo, up]
        for _ in range(n):
            out.append(t.int(lo, up))
    elif spec.is_cat:
        out = list(p["categories"])
    else:
        vals = list(spec.domain.values)
        if len(vals) <= 40:
            out = list(dict.fromkeys(vals))  # small finite ranges: every value
        else:
            out = [vals[0], vals[-1]] + [vals[t.index(len(vals))] for _ in range(n)]
    return out


def _pick(t, seq):
    return seq[t.index(len(seq))]


def _cube_value(t, spec):
    """One coordinate of a unit-cube vector; returns (value, is_boundary)."""
    size = spec.finite_size()
    opts = [(3, ("c", 0.0)), (3, ("c", 1.0)), (2, ("c", 0.5)), (4, ("f", None))]
    if size and 1 < size <= 10**6:
        opts.append((4, ("grid", None)))
    opts.append((1, ("c", 1e-9)))
    opts.append((1, ("c", 1.0 - 1e-9)))
    tag, v = t.weighted(opts)
    if tag == "c":
        return v, True
    if tag == "f":
        return t.float(0.0, 1.0), False
    k = t.int(0, min(size, 64))
    base = k / size
    off = t.choice([0.0, 1e-12, -1e-12, 1e-9, -1e-9])
    return min(max(base + off, 0.0), 1.0), True


def _check_member(spec, v, where, strict_type=True):
    r = spec.member(v, strict_type=strict_type)
    if r is not None:
        if spec.kind in ("qrandint", "qlograndint") and not spec.params.get("divisible", True):
            kind = "quantized-int-nondivisible-bounds"
        elif spec.quantized and where == "sampleN" and "type" in r:
            kind = "quantized-sample-list-not-cast"
        else:
            kind = f"{where}-not-member:{spec.kind}"
        raise Violation(kind, f"{spec.describe()} value={v!r}: {r}")


def _close(spec, a, b):
    if spec.is_float:
        p = spec.params
        scale = max(abs(a), abs(b))
        if not spec.is_log and spec.kind != "reverseloguniform":
            scale = max(scale, abs(p["lower"]), abs(p["upper"]))
        return abs(a - b) <= 1e-7 * scale + 1e-300  # subnormals carry no relative precision
    if isinstance(a, float) or isinstance(b, float):
        return a == b
    return a == b and type(a) is type(b)


# ----------------------------------------------------------------------------
def case_domain(t):
    from syne_tune.optimizer.schedulers.searchers.utils.hp_ranges_factory import (
        make_hyperparameter_ranges,
    )

    spec = gd.gen_domspec(t)
    labels = [spec.kind]
    if spec.domain is None:
        return Result(labels + ["constructor-rejected"], False, {"domain": spec.describe(), "rejected": spec.rejected})
    dom = spec.domain
    labels.append("degenerate" if spec.degenerate else "regular")
    boundary = False
    if spec.nn_single:
        try:
            v = dom.sample(random_state=np.random.RandomState(0))
            make_hyperparameter_ranges({"x": dom})
        except Exception as e:
            raise Violation("ordinal-nn-single-category", f"{spec.describe()}: {type(e).__name__}: {e}")
    # -- type advertised
    if dom.value_type is not spec.value_type:
        raise Violation(f"value-type:{spec.kind}", f"{spec.describe()}: {dom.value_type}")
    # -- sampling
    seed = t.int(0, 2**31 - 2)
    size = t.weighted([(3, 1), (2, 2), (1, 5), (1, 17)])
    rs = np.random.RandomState(seed)
    smp = dom.sample(size=size, random_state=rs)
    if size == 1:
        vals = [smp]
    else:
        if not isinstance(smp, list) or len(smp) != size:
            raise Violation(f"sample-shape:{spec.kind}", f"{spec.describe()} size={size}: {smp!r}")
        vals = smp
    for v in vals:
        _check_member(spec, v, f"sample{'N' if size > 1 else '1'}")
        if spec.quantized and not spec.on_quant_grid(v):
            if spec.is_int and not spec.params["divisible"]:
                raise Violation("quantized-int-nondivisible-bounds", f"{spec.describe()} value={v!r} off grid")
            raise Violation(f"sample-off-grid:{spec.kind}", f"{spec.describe()} value={v!r}")
    labels.append(f"sample-size-{'1' if size == 1 else 'n'}")
    # -- cast of members
    mem = _members(t, spec)
    for m in mem:
        _check_member(spec, m, "harness-member")  # generator sanity
    for m in mem:
        variants = [m]
        if spec.value_type is float:
            variants.append(np.float64(m))
        elif spec.value_type is int:
            variants += [np.int64(m), float(m)]
        for x in variants:
            c = dom.cast(x)
            _check_member(spec, c, "cast")
            if spec.is_float:
                if c != m:
                    raise Violation(f"cast-changes-member:{spec.kind}", f"{spec.describe()} {m!r}->{c!r}")
            elif not spec.is_fin and c != m:
                raise Violation(f"cast-changes-member:{spec.kind}", f"{spec.describe()} {m!r}->{c!r}")
            elif spec.is_fin and c != m and not spec.params["cast_int"]:
                raise Violation(f"cast-changes-member:{spec.kind}", f"{spec.describe()} {m!r}->{c!r}")
    # -- encoding of a one-dimensional space
    hp = make_hyperparameter_ranges({"x": dom})
    nd = hp.ndarray_size
    if spec.kind == "choice" and len(spec.params["categories"]) != 2:
        want = len(spec.params["categories"])
    else:
        want = 1
    if nd != want:
        raise Violation(f"ndarray-size:{spec.kind}", f"{spec.describe()}: {nd} != {want}")
    bounds = hp.get_ndarray_bounds()
    if len(bounds) != nd or any(not (0.0 <= a <= b <= 1.0) for a, b in bounds):
        raise Violation(f"ndarray-bounds:{spec.kind}", f"{spec.describe()}: {bounds}")
    for _ in range(3):
        vec = []
        for _jj in range(nd):
            x, b = _cube_value(t, spec)
            boundary = boundary or b
            vec.append(x)
        dec = hp.from_ndarray(np.array(vec))
        _check_member(spec, dec["x"], "decode", strict_type=True)
    for m in mem:
        enc = hp.to_ndarray({"x": m})
        if not isinstance(enc, np.ndarray) or enc.shape != (nd,):
            raise Violation(f"encode-shape:{spec.kind}", f"{spec.describe()} {m!r}: {enc!r}")
        if not np.all((enc >= 0.0) & (enc <= 1.0)):
            raise Violation(f"encode-outside-cube:{spec.kind}", f"{spec.describe()} {m!r}: {enc!r}")
        dec = hp.from_ndarray(enc)["x"]
        _check_member(spec, dec, "decode")
        if not _close(spec, m, dec):
            raise Violation(f"roundtrip:{spec.kind}", f"{spec.describe()} {m!r} -> {enc!r} -> {dec!r}")
    boundary = True  # members always include both end points
    nontrivial = spec.degenerate or boundary
    if boundary:
        labels.append("boundary-vector")
    return Result(
        labels,
        nontrivial,
        {"domain": spec.describe(), "seed": seed, "size": size, "sampled": [_j(v) for v in vals[:3]], "members": [_j(m) for m in mem[:4]]},
    )


def _j(v):
    if isinstance(v, (np.floating, np.integer)):
        return v.item()
    return v


# ----------------------------------------------------------------------------
def _active_sub(t, spec):
    """A sub-range of a domain usable in active_config_space (or None)."""
    p = spec.params
    if spec.is_fin or spec.quantized:
        return None
    if spec.is_float:
        a = t.float(p["lower"], p["upper"])
        b = t.float(p["lower"], p["upper"])
        lo, up = min(a, b), max(a, b)
        if t.chance(1, 4):
            up = lo
        sub = gd.DomSpec(spec.kind, dict(p, lower=lo, upper=up))
    elif spec.is_int:
        a = t.int(p["lower"], p["upper"])
        b = t.int(p["lower"], p["upper"])
        sub = gd.DomSpec(spec.kind, dict(p, lower=min(a, b), upper=max(a, b)))
    else:
        cats = p["categories"]
        if spec.kind == "choice":
            sel = t.subset(cats, min_size=1)
        else:
            i = t.int(0, len(cats) - 1)
            j = t.int(i, len(cats) - 1)
            sel = cats[i : j + 1]
        kind = spec.kind
        if kind in ("ordinal-nn", "ordinal-nn-log", "ordinal-default") and len(sel) == 1:
            # the library cannot build a one-category nearest-neighbour ordinal
            # (see known findings); use the parent's class with the same list
            return None
        sub = gd.DomSpec(kind, dict(p, categories=list(sel)))
    gd.build(sub)
    if sub.domain is None:
        return None
    if type(sub.domain) is not type(spec.domain):
        return None
    return sub


def case_space(t):
    from syne_tune.optimizer.schedulers.searchers.utils.hp_ranges_factory import (
        make_hyperparameter_ranges,
    )

    specs, constants = gd.gen_space(t, 1, 5)
    cs = gd.space_dict(specs, constants, const_first=t.bool())
    labels = [f"n-hp-{len(specs)}"] + sorted({s.kind for s in specs.values()})
    kwargs = {}
    active = {}
    use_active = t.chance(1, 3)
    if use_active:
        for k, s in specs.items():
            if t.bool():
                sub = _active_sub(t, s)
                if sub is not None:
                    active[k] = sub
        if active:
            kwargs["active_config_space"] = {k: s.domain for k, s in active.items()}
            labels.append("active-config-space")
    fixed = None
    if t.chance(1, 3):
        nm = t.choice(sorted(specs))
        kwargs["name_last_pos"] = nm
        if t.bool() and nm not in active:
            fixed = _pick(t, _members(t, specs[nm], n=1))
            kwargs["value_for_last_pos"] = fixed
            labels.append("fixed-last-pos")
        else:
            labels.append("name-last-pos")
    hp = make_hyperparameter_ranges(cs, **kwargs)
    keys = hp.internal_keys
    want_keys = sorted(specs)
    if "name_last_pos" in kwargs:
        want_keys.remove(kwargs["name_last_pos"])
        want_keys.append(kwargs["name_last_pos"])
    if list(keys) != want_keys:
        raise Violation("internal-keys", f"{keys} != {want_keys}")
    nd = hp.ndarray_size
    sizes = [
        len(specs[k].params["categories"]) if (specs[k].kind == "choice" and len(specs[k].params["categories"]) != 2) else 1
        for k in keys
    ]
    if nd != sum(sizes):
        raise Violation("ndarray-size:space", f"{nd} != {sum(sizes)}")
    bounds = hp.get_ndarray_bounds()
    if len(bounds) != nd or any(not (0.0 <= a <= b <= 1.0) for a, b in bounds):
        raise Violation("ndarray-bounds:space", f"{bounds}")
    boundary = False
    # decode arbitrary cube vectors
    for _ in range(2):
        vec = []
        for k, sz in zip(keys, sizes):
            for _j2 in range(sz):
                x, b = _cube_value(t, specs[k])
                boundary = boundary or b
                vec.append(x)
        dec = hp.from_ndarray(np.array(vec))
        if sorted(dec) != sorted(specs):
            raise Violation("decode-keys", f"{sorted(dec)} != {sorted(specs)}")
        for k in keys:
            _check_member(specs[k], dec[k], "decode")
    # decode vectors inside get_ndarray_bounds -> inside the active sub-range
    if active or fixed is not None:
        vec = []
        for a, b in bounds:
            c = t.weighted([(2, 0.0), (2, 1.0), (3, None)])
            vec.append(a + (b - a) * (t.float(0.0, 1.0) if c is None else c))
        dec = hp.from_ndarray(np.array(vec))
        for k, sub in active.items():
            r = sub.member(dec[k])
            if r is not None and sub.is_float and isinstance(dec[k], float):
                # the active range of a continuous parameter is defined through
                # its encoding: same tolerance as the round-trip (1e-7 relative)
                lo, up = sub.params["lower"], sub.params["upper"]
                if _close(specs[k], max(dec[k], lo), dec[k]) and _close(specs[k], min(dec[k], up), dec[k]):
                    r = None
            if r is not None:
                if sub.kind == "choice":
                    a0, a1 = hp.encoded_ranges[k]
                    if max(vec[a0:a1]) == 0.0:
                        raise Violation(
                            "decode-outside-active:choice-onehot-all-zero",
                            f"space={specs[k].describe()} active={sub.describe()} block={vec[a0:a1]} -> {dec[k]!r}",
                        )
                big = sub.is_int and max(abs(specs[k].params["lower"]), abs(specs[k].params["upper"])) > 2**25
                raise Violation(
                    "decode-outside-active:integer-bounds-beyond-eps-margin" if big else f"decode-outside-active:{sub.kind}",
                    f"space={specs[k].describe()} active={sub.describe()} vec={vec} -> {dec[k]!r}: {r}",
                )
        if fixed is not None:
            nm = kwargs["name_last_pos"]
            if not _close(specs[nm], fixed, dec[nm]):
                raise Violation(f"fixed-last-pos:{specs[nm].kind}", f"{specs[nm].describe()} fixed={fixed!r} decoded={dec[nm]!r}")
    # random_config respects active ranges / fixed value
    seed = t.int(0, 2**31 - 2)
    rs = np.random.RandomState(seed)
    configs = hp.random_configs(rs, 3)
    for c in configs:
        for k in keys:
            if fixed is not None and k == kwargs["name_last_pos"]:
                if c[k] != fixed:
                    raise Violation("random-config-fixed", f"{c[k]!r} != {fixed!r}")
                continue
            s = active.get(k, specs[k])
            _check_member(s, c[k], "random-config")
    # round trip of member configurations
    for c in configs + [{k: _pick(t, _members(t, specs[k], n=0)) for k in keys}]:
        enc = hp.to_ndarray(c)
        if enc.shape != (nd,) or not np.all((enc >= 0.0) & (enc <= 1.0)):
            raise Violation("encode-outside-cube:space", f"{c} -> {enc!r}")
        dec = hp.from_ndarray(enc)
        for k in keys:
            if not _close(specs[k], c[k], dec[k]):
                raise Violation(f"roundtrip:{specs[k].kind}", f"{specs[k].describe()} {c[k]!r} -> {dec[k]!r}")
        m = hp.to_ndarray_matrix([c, c])
        if m.shape != (2, nd):
            raise Violation("matrix-shape", str(m.shape))
    nontriv = len(specs) >= 2 and (boundary or bool(active) or fixed is not None)
    return Result(
        labels,
        nontriv,
        {
            "space": {k: s.describe() for k, s in specs.items()},
            "constants": constants,
            "active": {k: s.describe() for k, s in active.items()},
            "fixed_last": kwargs.get("name_last_pos"),
            "example_config": {k: _j(v) for k, v in configs[0].items()},
        },
    )


# ----------------------------------------------------------------------------
def case_json(t):
    import syne_tune.config_space as csm
    from syne_tune.optimizer.schedulers.searchers.utils.hp_ranges_factory import (
        make_hyperparameter_ranges,
    )

    specs, constants = gd.gen_space(t, 1, 4)
    cs = gd.space_dict(specs, constants, const_first=t.bool())
    kinds = sorted({s.kind for s in specs.values()})
    qkinds = [k for k in kinds if k in ("quniform", "qloguniform", "qrandint", "qlograndint")]
    try:
        d = csm.config_space_to_json_dict(cs)
        txt = json.dumps(d)
        back = csm.config_space_from_json_dict(json.loads(txt))
    except Exception as e:
        tag = "quantized" if qkinds else "+".join(kinds)
        raise Violation(f"json-raises:{tag}", f"{ {k: s.describe() for k, s in specs.items()} }: {type(e).__name__}: {e}")
    if list(back) != list(cs):
        raise Violation("json-keys", f"{list(back)} != {list(cs)}")
    for k in cs:
        a, b = cs[k], back[k]
        if k in constants:
            if a != b or type(a) is not type(b):
                raise Violation("json-constant", f"{k}: {a!r} != {b!r}")
            continue
        if type(a) is not type(b) or not (a == b) or not (b == a):
            raise Violation(f"json-not-equal:{specs[k].kind}", f"{specs[k].describe()}: {a!r} vs {b!r}")
        if len(a) != len(b):
            raise Violation(f"json-size:{specs[k].kind}", f"{specs[k].describe()}: {len(a)} vs {len(b)}")
    hp1 = make_hyperparameter_ranges(cs)
    hp2 = make_hyperparameter_ranges(back)
    seed = t.int(0, 2**31 - 2)
    rs = np.random.RandomState(seed)
    configs = hp1.random_configs(rs, 20)
    for c in configs:
        e1 = hp1.to_ndarray(c)
        e2 = hp2.to_ndarray(c)
        if e1.shape != e2.shape or not np.array_equal(e1, e2):
            raise Violation("json-encodes-differently", f"{ {k: s.describe() for k, s in specs.items()} } {c}: {e1!r} vs {e2!r}")
        d1 = hp1.from_ndarray(e1)
        d2 = hp2.from_ndarray(e1)
        if d1 != d2:
            raise Violation("json-decodes-differently", f"{c}: {d1} vs {d2}")
    # samples from the restored space are members of the original
    rs2 = np.random.RandomState(seed)
    for k, s in specs.items():
        v = back[k].sample(random_state=rs2)
        _check_member(s, v, "json-sample")
    return Result(kinds + [f"n-hp-{len(specs)}"], len(specs) >= 1, {"space": {k: s.describe() for k, s in specs.items()}, "constants": constants, "json": txt[:400]})


SUBCHECKS = {
    "domain": {"fn": case_domain, "quick": 60000, "thorough": 1500000, "required": gd.ALL_KINDS + ["degenerate"]},
    "space": {"fn": case_space, "quick": 30000, "thorough": 600000, "required": ["active-config-space", "fixed-last-pos"]},
    "json": {"fn": case_json, "quick": 20000, "thorough": 300000, "required": gd.ALL_KINDS},
}
